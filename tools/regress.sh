#!/bin/bash
cd /verif
/venv/bin/python selftest/false_alarm.py > /dev/shm/fa_all.log 2>&1
/venv/bin/python selftest/seeded.py > /dev/shm/seeded_all.log 2>&1
for p in C01 C12 C14 C16; do /venv/bin/python selftest/sensitivity.py --baseline --prop $p --out selftest/reports/sensitivity_$p.json > /dev/shm/sens2_$p.log 2>&1; done
echo ALLDONE >> /dev/shm/fa_all.log
