#!/venv/bin/python
"""Run the repository's pinned test command and compare the set of passing
tests with /root/.vp/BASELINE.json's stable_pass list.  exit 0 iff every
stable-pass test still passes."""
import json, os, subprocess, sys, tempfile, xml.etree.ElementTree as ET
repo = sys.argv[1] if len(sys.argv) > 1 else "/repo"
base = json.load(open("/root/.vp/BASELINE.json"))
fd, path = tempfile.mkstemp(suffix=".xml", dir="/dev/shm"); os.close(fd)
env = dict(os.environ); env.pop("PRYSM_VERIF", None)
subprocess.run(["/venv/bin/python", "-m", "pytest", "-q", "-p", "no:cacheprovider", "--timeout=900",
                "--continue-on-collection-errors", f"--junitxml={path}"], cwd=repo, env=env,
               stdout=subprocess.DEVNULL, stderr=subprocess.DEVNULL)
passed = set()
for tc in ET.parse(path).getroot().iter("testcase"):
    if not any(c.tag in ("failure", "error", "skipped") for c in tc):
        passed.add(f"{tc.get('classname')}::{tc.get('name')}")
os.unlink(path)
want = set(base["stable_pass"])
missing = sorted(want - passed)
print(f"baseline stable_pass={len(want)} passed_now={len(passed)} missing={len(missing)}")
for m in missing[:20]: print("  MISSING", m)
sys.exit(1 if missing else 0)
