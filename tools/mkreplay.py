#!/venv/bin/python
"""Turn a hand-written plan (JSON on stdin or file) into a replay file: executes it in a
fresh child, records the first violation's signature.  usage: mkreplay.py PROP plan.json out.json"""
import sys, os, json
sys.path.insert(0, os.path.dirname(os.path.dirname(os.path.abspath(__file__))))
from sim import core
core.ensure_pinned_env()
import importlib
prop, src, dst = sys.argv[1:4]
mod = importlib.import_module({"C01": "checks.c01", "C12": "checks.c12", "C14": "checks.c14", "C16": "checks.c16"}[prop])
plan = json.load(open(src))
core.import_prysm()
st, res = core.run_in_child(mod.execute, plan, 120)
assert st == "ok", res
vs = res["violations"]
if not vs:
    print("no violation"); sys.exit(1)
want = sys.argv[4] if len(sys.argv) > 4 else mod.signature(vs[0])
v = [x for x in vs if mod.signature(x) == want][0]
json.dump({"property": prop, "seed": None, "run": None, "tier": "manual", "signature": want, "violation": v,
           "plan": plan, "repo": core.repo_state()}, open(dst, "w"), indent=1)
print("wrote", dst, want, json.dumps(v)[:200])
