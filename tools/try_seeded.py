#!/venv/bin/python
"""Confirm a seeded change and run the property's check against it.

usage: try_seeded.py PROP PATCH DEMO [--tier quick] [--no-baseline]
 1. demo on the unchanged tree  -> must exit 0
 2. scratch copy of /repo under /dev/shm, patch applied
 3. demo on the changed tree    -> must exit != 0
 4. repository test baseline on the changed tree (must still pass)
 5. /verif check of PROP against the changed tree (VERIF_REPO) -> exit 1 expected
Prints one JSON line."""
import argparse, json, os, shutil, subprocess, sys, tempfile, time
VERIF = os.path.dirname(os.path.dirname(os.path.abspath(__file__)))
ap = argparse.ArgumentParser()
ap.add_argument("prop"); ap.add_argument("patch"); ap.add_argument("demo")
ap.add_argument("--tier", default="quick"); ap.add_argument("--no-baseline", action="store_true")
ap.add_argument("--budget", type=float)
a = ap.parse_args()
out = {"prop": a.prop, "patch": a.patch}
root = tempfile.mkdtemp(prefix="prysm_seed_", dir="/dev/shm")
try:
    subprocess.run(["rsync", "-a", "--exclude", ".git", "--exclude", "docs", "--exclude", "__pycache__", "/repo/", root + "/"], check=True)
    env0 = dict(os.environ, PYTHONPATH="/repo", OPENBLAS_NUM_THREADS="1")
    out["demo_unchanged_exit"] = subprocess.run(["/venv/bin/python", a.demo], cwd="/dev/shm", env=env0, capture_output=True, timeout=900).returncode
    p = subprocess.run(["git", "apply", "--whitespace=nowarn", os.path.abspath(a.patch)], cwd=root, capture_output=True, text=True)
    if p.returncode:
        out["error"] = "patch does not apply: " + p.stderr[-300:]
        print(json.dumps(out)); sys.exit(2)
    env1 = dict(os.environ, PYTHONPATH=root, OPENBLAS_NUM_THREADS="1")
    d = subprocess.run(["/venv/bin/python", a.demo], cwd="/dev/shm", env=env1, capture_output=True, text=True, timeout=900)
    out["demo_changed_exit"] = d.returncode
    out["demo_says"] = (d.stdout + d.stderr).strip()[-300:]
    if not a.no_baseline:
        b = subprocess.run(["/venv/bin/python", os.path.join(VERIF, "tools", "baseline.py"), root], capture_output=True, text=True, timeout=3600)
        out["passes_existing_tests"] = b.returncode == 0
    env = dict(os.environ, VERIF_REPO=root, VERIF_OUT=os.path.join(root, "_out"))
    env.pop("_VERIF_REEXEC", None)
    cmd = ["/venv/bin/python", os.path.join(VERIF, "run_check.py"), a.prop, "--tier", a.tier]
    if a.budget:
        cmd += ["--budget", str(a.budget)]
    t0 = time.time()
    c = subprocess.run(cmd, capture_output=True, text=True, env=env, timeout=7200)
    out["check_exit"] = c.returncode
    out["check_wall_s"] = round(time.time() - t0, 1)
    out["violations"] = [ln.split("replay=")[1].split("/")[-1] for ln in c.stdout.splitlines() if ln.startswith("VIOLATION")]
    out["harness"] = [ln[:300] for ln in c.stdout.splitlines() if ln.startswith("HARNESS")][:3]
    out["verdict"] = "caught" if c.returncode == 1 else ("MISSED" if c.returncode == 0 else "HARNESS-ERROR")
    # keep the first minimised replay for the record
    if out["violations"]:
        rp = os.path.join(root, "_out", "replays", a.prop, out["violations"][0])
        try:
            r = json.load(open(rp))
            out["first_violation"] = r["violation"]
            out["min_ops"] = r["plan"].get("ops")
        except Exception:
            pass
finally:
    shutil.rmtree(root, ignore_errors=True)
print(json.dumps(out))
