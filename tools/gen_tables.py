#!/venv/bin/python
"""Regenerate the seeded-change and mutant tables of DESIGN.md §13 from seeded/*/meta.json and selftest/reports."""
import glob, json, os, re
V = os.path.dirname(os.path.dirname(os.path.abspath(__file__)))
rows = ["| id | what the change does | violation classes reported by the check | first round |", "|---|---|---|---|"]
for d in sorted(glob.glob(V + "/seeded/*")):
    m = json.load(open(d + "/meta.json"))
    cls = sorted({c.split("-", 2)[2].replace(".json", "") for c in (m.get("violation_classes") or [])})
    fr = m.get("first_round", "")
    note = "missed" if fr.startswith("missed") else ("harness error" if fr else "caught")
    rows.append("| %s | %s | %s | %s |" % (os.path.basename(d), (m["breaks"] or "")[:170].replace("|", "/").replace("\n", " "), ", ".join(cls)[:110], note))
seeded = "\n".join(rows)
mut = ["| mutant | change | verdict | passes the 795-test suite | classes |", "|---|---|---|---|---|"]
base = {}
for p in ("C01", "C12", "C14", "C16"):
    f = V + f"/selftest/reports/sensitivity_{p}.json"
    if not os.path.exists(f):
        continue
    for r in json.load(open(f))["results"]:
        mut.append("| %s | %s | %s | %s | %s |" % (r["id"], r["note"][:90], r["status"] + (" (replay verified)" if r.get("replay_on_mutant_exit") == 1 and r.get("replay_on_unchanged_exit") == 0 else ""),
                   {True: "yes", False: "no", None: "-"}[r.get("passes_existing_tests")],
                   ", ".join(sorted({v.split("-", 2)[2].replace(".json", "") for v in r.get("violations", [])}))[:90]))
s = open(V + "/DESIGN.md").read()
def put(s, tag, body):
    a, b = f"<!-- {tag}_BEGIN -->", f"<!-- {tag}_END -->"
    if a in s:
        return re.sub(re.escape(a) + r".*?" + re.escape(b), a + "\n" + body + "\n" + b, s, flags=re.S)
    return s
s = put(s, "SEEDED_TABLE", seeded)
s = put(s, "MUTANT_TABLE", "\n".join(mut))
open(V + "/DESIGN.md", "w").write(s)
print("seeded rows", len(rows) - 2, "mutant rows", len(mut) - 2)
