#!/venv/bin/python
"""Line coverage of the anchored prysm files reached by N simulated runs of a check (in-process, no fork).
usage: reach.py PROP [N]"""
import sys, os
sys.path.insert(0, os.path.dirname(os.path.dirname(os.path.abspath(__file__))))
os.environ.setdefault("OPENBLAS_NUM_THREADS", "1")
import coverage, importlib, json
prop = sys.argv[1]; N = int(sys.argv[2]) if len(sys.argv) > 2 else 300
files = {"C01": ["fttools.py", "propagation.py"], "C12": ["interferogram.py", "_richdata.py", "util.py"],
         "C14": ["io.py", "interferogram.py"], "C16": ["detector.py", "bayer.py"]}[prop]
cov = coverage.Coverage(include=["/repo/prysm/" + f for f in files], data_file=None)
from sim import core
mod = importlib.import_module("checks." + prop.lower())
core.import_prysm()
pid_plans = [mod.generate(core.run_rng(5, prop, i), "thorough") for i in range(N)]
if hasattr(mod, "exhaustive_plans"):
    pid_plans += mod.exhaustive_plans("quick")
# run each plan in a child would lose coverage; run in-process in a forked child that reports coverage
import pickle
r, w = os.pipe()
if os.fork() == 0:
    cov.start()
    for p in pid_plans:
        try:
            mod.execute(p)
        except BaseException as e:
            pass
    cov.stop()
    out = {}
    for f in files:
        fn = "/repo/prysm/" + f
        try:
            _, stmts, _, missing, _ = cov.analysis2(fn)
            out[f] = (len(stmts), missing)
        except Exception as e:
            out[f] = (0, [str(e)])
    os.write(w, pickle.dumps(out)); os._exit(0)
os.close(w)
data = b""
while True:
    b = os.read(r, 1 << 20)
    if not b: break
    data += b
out = pickle.loads(data)
for f, (n, miss) in out.items():
    print(f, "statements", n, "missed", len(miss))
    print("   ", miss)
