#!/bin/bash
# usage: collect_seeded.sh <srcdir> <PROP> <tag-prefix> <n...>   e.g. /tmp/seed_c01 C01 C01-a 1 2 3 4
src=$1; prop=$2; pre=$3; shift 3
for n in "$@"; do
  d=/verif/seeded/$pre$n; mkdir -p $d
  cp $src/patch$n.diff $d/patch.diff; cp $src/demo$n.py $d/demo.py; cp $src/meta$n.json $d/agent_meta.json
  ( /venv/bin/python /verif/tools/try_seeded.py $prop $d/patch.diff $d/demo.py > $d/run.json 2>$d/run.err
    /venv/bin/python - $d $prop <<'P'
import json,sys,os
d,prop=sys.argv[1:3]
am=json.load(open(d+'/agent_meta.json')); r=json.load(open(d+'/run.json'))
meta={"property":prop,"breaks":am.get("summary"),"needs_to_manifest":am.get("needs_to_manifest"),"files_touched":am.get("files_touched"),
 "origin":"fresh sub-agent given only the property text and its own scratch worktree; confirmed independently by tools/try_seeded.py",
 "ran":["demo.py on unchanged /repo (exit %s)"%r.get("demo_unchanged_exit"),"git apply patch.diff in a scratch copy of /repo under /dev/shm","demo.py on the changed copy (exit %s)"%r.get("demo_changed_exit"),
        "tools/baseline.py on the changed copy (795 stable-pass tests still pass: %s)"%r.get("passes_existing_tests"),
        "run_check.py %s --tier quick with VERIF_REPO=<changed copy> (exit %s)"%(prop,r.get("check_exit"))],
 "check_verdict":r.get("verdict"),"violation_classes":r.get("violations"),"first_violation":r.get("first_violation"),"minimised_ops":r.get("min_ops")}
json.dump(meta,open(d+'/meta.json','w'),indent=1)
os.remove(d+'/agent_meta.json'); os.remove(d+'/run.err') if os.path.getsize(d+'/run.err')==0 else None
P
  ) &
done
wait
