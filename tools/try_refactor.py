#!/venv/bin/python
"""False-alarm probe: apply a behaviour-preserving refactor to a scratch copy of /repo and run the
property's check against it; the expected verdict is exit 0.  usage: try_refactor.py PROP PATCH [--tier quick]"""
import argparse, json, os, shutil, subprocess, sys, tempfile, time
VERIF = os.path.dirname(os.path.dirname(os.path.abspath(__file__)))
ap = argparse.ArgumentParser()
ap.add_argument("prop"); ap.add_argument("patch"); ap.add_argument("--tier", default="quick"); ap.add_argument("--baseline", action="store_true")
ap.add_argument("--keep-replays")
a = ap.parse_args()
out = {"prop": a.prop, "patch": a.patch}
root = tempfile.mkdtemp(prefix="prysm_refac_", dir="/dev/shm")
try:
    subprocess.run(["rsync", "-a", "--exclude", ".git", "--exclude", "docs", "--exclude", "__pycache__", "/repo/", root + "/"], check=True)
    p = subprocess.run(["git", "apply", "--whitespace=nowarn", os.path.abspath(a.patch)], cwd=root, capture_output=True, text=True)
    if p.returncode:
        out["error"] = "patch does not apply: " + p.stderr[-300:]
        print(json.dumps(out)); sys.exit(2)
    if a.baseline:
        b = subprocess.run(["/venv/bin/python", os.path.join(VERIF, "tools", "baseline.py"), root], capture_output=True, text=True, timeout=3600)
        out["passes_existing_tests"] = b.returncode == 0
    env = dict(os.environ, VERIF_REPO=root, VERIF_OUT=os.path.join(root, "_out"))
    env.pop("_VERIF_REEXEC", None)
    t0 = time.time()
    c = subprocess.run(["/venv/bin/python", os.path.join(VERIF, "run_check.py"), a.prop, "--tier", a.tier], capture_output=True, text=True, env=env, timeout=7200)
    out["check_exit"] = c.returncode
    out["wall_s"] = round(time.time() - t0, 1)
    out["lines"] = [ln[:400] for ln in c.stdout.splitlines() if ln.startswith(("VIOLATION", "HARNESS", "KNOWN", "OK", "runs="))]
    out["verdict"] = "silent (correct)" if c.returncode == 0 else ("FALSE ALARM" if c.returncode == 1 else "HARNESS-ERROR")
    if c.returncode != 0 and a.keep_replays:
        shutil.copytree(os.path.join(root, "_out"), a.keep_replays, dirs_exist_ok=True)
        open(os.path.join(a.keep_replays, "stdout.txt"), "w").write(c.stdout + c.stderr)
finally:
    shutil.rmtree(root, ignore_errors=True)
print(json.dumps(out))
