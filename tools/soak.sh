#!/bin/bash
# false-alarm soak on the unchanged tree: thorough tier, several seeds; writes to a scratch VERIF_OUT
# usage: soak.sh "<seeds>" "<props>"
seeds=${1:-"11 12 13"}; props=${2:-"C01 C12 C14 C16"}
out=$(mktemp -d /dev/shm/verif_soak_XXXX)
for s in $seeds; do for p in $props; do
  VERIF_SEED=$s VERIF_OUT=$out nice -n 19 /venv/bin/python run_check.py $p --tier thorough > $out/$p-$s.log 2>&1; rc=$?
  echo "seed=$s prop=$p exit=$rc $(grep -E '^runs=' $out/$p-$s.log | cut -c1-120)"
  grep -E "VIOLATION|HARNESS" $out/$p-$s.log | cut -c1-300
  if [ $rc -ne 0 ]; then mkdir -p soak_failures; cp -r $out/replays soak_failures/ 2>/dev/null; cp $out/$p-$s.log soak_failures/; fi
done; done
rm -rf $out
