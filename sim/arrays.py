"""Array specifications: JSON-able descriptions of ndarrays that materialise
deterministically (harness-owned PCG64 streams, never numpy's global state)."""
import numpy as np


def materialise(spec):
    """spec -> ndarray.

    {"lit": nested list, "dtype": str, ["imag": nested list]}
    {"kind": k, "shape": [m, n], "seed": int, ["scale": float]}
       k in c128 f64 f32 c64 i64 impulse ramp ones
    """
    if "lit" in spec:
        a = np.array(spec["lit"], dtype=np.float64)
        if "imag" in spec:
            a = a + 1j * np.array(spec["imag"], dtype=np.float64)
        return a.astype(bool) if spec["dtype"] == "bool" else a.astype(spec["dtype"])
    shape = tuple(spec["shape"])
    kind = spec["kind"]
    scale = spec.get("scale", 1.0)
    g = np.random.Generator(np.random.PCG64(spec.get("seed", 0)))
    if kind in ("c128", "c64"):
        a = (g.standard_normal(shape) + 1j * g.standard_normal(shape)) * scale
        return a.astype(np.complex128 if kind == "c128" else np.complex64)
    if kind in ("f64", "f32"):
        a = g.standard_normal(shape) * scale
        return a.astype(np.float64 if kind == "f64" else np.float32)
    if kind == "i64":
        return g.integers(-5, 6, size=shape).astype(np.int64)
    if kind in ("i8", "i16", "u8"):
        lo = 0 if kind == "u8" else -5
        return g.integers(lo, 6, size=shape).astype({"i8": np.int8, "i16": np.int16, "u8": np.uint8}[kind])
    if kind == "bool":
        return g.random(shape) < 0.6
    if kind == "impulse":
        a = np.zeros(shape, dtype=np.float64)
        pos = spec.get("pos")
        if pos is None:
            pos = [int(g.integers(0, s)) for s in shape]
        a[tuple(pos)] = scale
        return a
    if kind == "ramp":
        return (np.arange(int(np.prod(shape)), dtype=np.float64).reshape(shape) + 1.0) * scale
    if kind == "ones":
        return np.ones(shape, dtype=np.float64) * scale
    if kind == "derived":
        # produced during the run (e.g. by an in-place Wavefront.pad2d); placeholder until then
        return np.zeros(shape, dtype=np.complex128)
    raise ValueError(f"unknown array kind {kind}")


def to_literal(spec):
    """Turn any spec into a literal one (for replay files)."""
    if "lit" in spec:
        return spec
    a = materialise(spec)
    out = {"dtype": str(a.dtype)}
    if np.iscomplexobj(a):
        out["lit"] = a.real.astype(np.float64).tolist()
        out["imag"] = a.imag.astype(np.float64).tolist()
    else:
        out["lit"] = a.astype(np.float64).tolist()
    return out


def spec_shape(spec):
    if "lit" in spec:
        return list(np.shape(spec["lit"]))
    return list(spec["shape"])


def spec_is32(spec):
    if "lit" in spec:
        return spec["dtype"] in ("float32", "complex64")
    return spec["kind"] in ("f32", "c64")


def spec_isint(spec):
    if "lit" in spec:
        return spec["dtype"].startswith(("int", "uint", "bool"))
    return spec["kind"] in ("i64", "i8", "i16", "u8", "bool")
