"""Simulator-owned stand-ins for everything nondeterministic or fallible that
prysm touches: disk (SimDisk), wall clock (SimClock), random source
(SimRandom) and a backend-module proxy that routes selected numpy entry points
(savetxt, random) through the simulator while everything else stays real
numpy."""
import errno
import io
import os


class SimCrash(BaseException):
    """The process 'dies' here.  BaseException so that it unwinds through
    `except Exception` handlers and `finally` blocks like a real kill would
    not — but lets the writers' own cleanup run, which is the harsher test."""


class SimFile:
    """One open file on a SimDisk."""

    def __init__(self, disk, path, mode, fault=None):
        self.disk = disk
        self.path = path
        self.mode = mode
        self.fault = fault or {}
        self.closed = False
        self.binary = "b" in mode
        self.written = 0
        self._rpos = 0

    # -- writing
    def write(self, data):
        if self.closed:
            raise ValueError("I/O operation on closed file")
        if not any(c in self.mode for c in "wax+"):
            raise io.UnsupportedOperation("not writable")
        if isinstance(data, str):
            if self.binary:
                raise TypeError("a bytes-like object is required, not 'str'")
            raw = data.encode("utf-8")
        else:
            if not self.binary:
                raise TypeError("write() argument must be str, not bytes")
            raw = bytes(data)
        f = self.fault
        at = f.get("at")
        kind = f.get("kind")
        if kind in ("enospc", "crash") and at is not None and self.written + len(raw) > at:
            room = max(0, at - self.written)
            self.disk._append(self.path, raw[:room], self._wpos())
            self.written += room
            self.disk.fired[kind] = self.disk.fired.get(kind, 0) + 1
            f["fired"] = True
            if kind == "enospc":
                f["at"] = self.written     # disk stays full
                raise OSError(errno.ENOSPC, "No space left on device (simulated)")
            # crash: only a prefix of what was written survives
            keep = min(f.get("survive", self.written), self.written)
            self.disk.files[self.path] = self.disk.files[self.path][:keep]
            self.disk.crashed = True
            raise SimCrash(f"crash at byte {at} of {self.path}, {keep} bytes survive")
        self.disk._append(self.path, raw, self._wpos())
        self.written += len(raw)
        return len(data)

    def _wpos(self):
        # write position: end of file except for "r+" handles, which start at 0
        return self.written if ("+" in self.mode and "r" in self.mode) else None

    def flush(self):
        pass

    def fileno(self):
        fd = getattr(self, "_fd", None)
        if fd is None:
            raise io.UnsupportedOperation("fileno")
        return fd

    def tell(self):
        return self.written if ("w" in self.mode or "a" in self.mode) else self._rpos

    def seek(self, pos, whence=0):
        if "w" in self.mode or "a" in self.mode:
            raise io.UnsupportedOperation("seek on a simulated write handle")
        n = len(self.disk.files[self.path])
        self._rpos = max(0, min(n, pos if whence == 0 else (self._rpos + pos if whence == 1 else n + pos)))
        return self._rpos

    def readable(self):
        return "r" in self.mode

    def writable(self):
        return "w" in self.mode or "a" in self.mode

    def seekable(self):
        return "r" in self.mode

    def readline(self, *a):
        data = self.disk.files[self.path]
        j = data.find(b"\n", self._rpos)
        j = len(data) if j < 0 else j + 1
        out = data[self._rpos:j]
        self._rpos = j
        return out if self.binary else out.decode("utf-8")

    def readlines(self, *a):
        out = []
        while True:
            ln = self.readline()
            if not ln:
                return out
            out.append(ln)

    def __iter__(self):
        return iter(self.readlines())

    def writelines(self, lines):
        for ln in lines:
            self.write(ln)

    @property
    def name(self):
        return self.path

    def close(self):
        if self.closed:
            return
        self.closed = True
        self.disk.fds.pop(getattr(self, "_fd", None), None)
        if self.fault.get("kind") == "eio_close" and not self.fault.get("fired"):
            self.fault["fired"] = True
            self.disk.fired["eio_close"] = self.disk.fired.get("eio_close", 0) + 1
            lose = self.fault.get("lose")
            if lose:
                # buffered data that the failing flush never wrote
                cur = self.disk.files.get(self.path, b"")
                self.disk.files[self.path] = cur[:max(0, len(cur) - int(lose))]
            raise OSError(errno.EIO, "Input/output error on close (simulated)")

    # -- reading
    def read(self, n=-1):
        if self.closed:
            raise ValueError("I/O operation on closed file")
        if self.fault.get("kind") == "eio_read":
            self.fault["fired"] = True
            self.disk.fired["eio_read"] = self.disk.fired.get("eio_read", 0) + 1
            raise OSError(errno.EIO, "Input/output error (simulated)")
        data = self.disk.files[self.path]
        if n is None or n < 0:
            out = data[self._rpos:]
        else:
            out = data[self._rpos:self._rpos + n]
        self._rpos += len(out)
        return out if self.binary else out.decode("utf-8")

    def __enter__(self):
        return self

    def __exit__(self, *a):
        self.close()
        return False


class SimDisk:
    """In-memory file system.  `arm(path, fault)` arms one fault for the next
    open of that path; faults are dicts {kind, at, survive}."""

    def __init__(self):
        self.files = {}
        self.armed = {}
        self.fired = {}
        self.opens = []
        self.crashed = False
        self.fds = {}              # simulated file descriptors (os.open / mkstemp)
        self.next_fd = 1_000_000

    def _append(self, path, raw, at=None):
        cur = self.files.get(path, b"")
        if at is None or at >= len(cur):
            self.files[path] = cur + raw
        else:                                  # "r+": overwrite in place, keep any tail
            self.files[path] = cur[:at] + raw + cur[at + len(raw):]

    def arm(self, path, fault):
        self.armed[str(path)] = dict(fault)

    def _armed_for(self, path, is_read):
        # a fault armed for P also applies to the writer's temporary siblings (P.part, P.tmp, ...)
        for p in sorted(self.armed, key=len, reverse=True):
            if path == p or (not is_read and path.startswith(p)):
                if (self.armed[p]["kind"] == "eio_read") == is_read:
                    return p
        return None

    def open(self, path, mode="r", *a, **kw):
        path = os.fspath(path) if not isinstance(path, str) else path
        path = str(path)
        fault = None
        is_read = "r" in mode and "+" not in mode
        key = self._armed_for(path, is_read)
        if key is not None:
            fault = self.armed.pop(key)
        self.opens.append((path, mode))
        if "x" in mode and path in self.files:
            raise FileExistsError(errno.EEXIST, "File exists (simulated)", path)
        if "w" in mode or "x" in mode:
            self.files[path] = b""           # opening for write truncates
        elif "a" in mode:
            self.files.setdefault(path, b"")
        elif "r" in mode:
            if path not in self.files:
                raise FileNotFoundError(errno.ENOENT, "No such file (simulated)", path)
        return SimFile(self, path, mode, fault)

    # -- the few file-system calls a writer may use around open()
    def replace(self, src, dst):
        src, dst = str(os.fspath(src)), str(os.fspath(dst))
        if src not in self.files:
            raise FileNotFoundError(errno.ENOENT, "No such file (simulated)", src)
        self.files[dst] = self.files.pop(src)

    def remove(self, path):
        path = str(os.fspath(path))
        if path not in self.files:
            raise FileNotFoundError(errno.ENOENT, "No such file (simulated)", path)
        del self.files[path]

    def exists(self, path):
        path = str(os.fspath(path))
        return path in self.files or path.rstrip("/") == "/sim"

    def getsize(self, path):
        path = str(os.fspath(path))
        if path not in self.files:
            raise FileNotFoundError(errno.ENOENT, "No such file (simulated)", path)
        return len(self.files[path])

    def path_class(self):
        disk = self

        class SimPath:
            def __init__(self, p):
                self.p = str(p)

            def expanduser(self):
                return self

            def read_text(self, *a, **kw):
                with disk.open(self.p, "r") as f:
                    return f.read()

            def read_bytes(self):
                with disk.open(self.p, "rb") as f:
                    return f.read()

            def __str__(self):
                return self.p

            def __fspath__(self):
                return self.p

        return SimPath


class SimClock:
    """Stands in for the `datetime` module inside prysm.io.  Time only moves
    when the simulator says so; datetimes are timezone-aware UTC so that
    .timestamp() does not depend on the sandbox's TZ."""

    def __init__(self, t0):
        import datetime as _dt
        self._dt = _dt
        self.now_s = float(t0)
        self.t0 = float(t0)
        self.reads = 0
        clock = self

        class _DT(_dt.datetime):
            @classmethod
            def now(cls, tz=None):
                clock.reads += 1
                return _dt.datetime.fromtimestamp(clock.now_s, tz=_dt.timezone.utc)

        self.datetime = _DT
        self.timezone = _dt.timezone
        self.timedelta = _dt.timedelta
        self.date = _dt.date

    def advance(self, dt):
        self.now_s = min(max(self.now_s + dt, 0.0), 4294967295.0)

    # should the code under test have `from datetime import datetime`, the shadow
    # is used as the class itself
    def now(self, tz=None):
        return self.datetime.now(tz)

    def utcnow(self):
        return self.datetime.now().replace(tzinfo=None)

    def today(self):
        return self.datetime.now()

    def fromtimestamp(self, *a, **k):
        return self._dt.datetime.fromtimestamp(*a, **k)

    def __call__(self, *a, **k):
        return self._dt.datetime(*a, **k)

    def __getattr__(self, key):
        return getattr(self._dt, key)


SIM_ROOT = "/sim/"


def install_sim_os(disk, clock=None):
    """Process-wide seams (only ever called inside a forked child): every file
    operation on a path under /sim/ goes to the SimDisk, everything else to the
    real OS; time.time()/time_ns() read the SimClock."""
    import builtins
    import os.path as osp
    import time as _time
    real_open = builtins.open

    def is_sim(p):
        try:
            return str(os.fspath(p)).startswith(SIM_ROOT)
        except TypeError:
            return False

    def sim_open(file, mode="r", *a, **kw):
        if isinstance(file, int) and file in disk.fds:
            f = disk.fds[file]            # os.fdopen() of a descriptor obtained from the simulated os.open
            f.binary = "b" in mode
            return f
        if is_sim(file):
            return disk.open(file, mode)
        return real_open(file, mode, *a, **kw)

    # descriptor-level API (tempfile.mkstemp + os.fdopen, os.open/os.write/os.close)
    real_os_open, real_close, real_write, real_fsync, real_fstat = os.open, os.close, os.write, os.fsync, os.fstat

    def os_open(path, flags, mode=0o777, *a, **kw):
        if not is_sim(path):
            return real_os_open(path, flags, mode, *a, **kw)
        p = str(os.fspath(path))
        exists = p in disk.files
        if flags & os.O_CREAT and flags & os.O_EXCL and exists:
            raise FileExistsError(errno.EEXIST, "File exists (simulated)", p)
        if not exists and not flags & os.O_CREAT:
            raise FileNotFoundError(errno.ENOENT, "No such file (simulated)", p)
        acc = flags & os.O_ACCMODE
        if acc == os.O_RDONLY:
            fm = "rb"
        elif flags & os.O_APPEND:
            fm = "ab"
        elif flags & os.O_TRUNC or not exists:
            fm = "wb"
        else:
            fm = "r+b"
        f = disk.open(p, fm)
        disk.next_fd += 1
        disk.fds[disk.next_fd] = f
        f._fd = disk.next_fd
        return disk.next_fd

    def os_close(fd):
        if fd in disk.fds:
            disk.fds.pop(fd).close()
            return None
        return real_close(fd)

    def os_write(fd, data):
        if fd in disk.fds:
            return disk.fds[fd].write(bytes(data))
        return real_write(fd, data)

    def os_fsync(fd):
        if hasattr(fd, "fileno"):
            fd = fd.fileno()
        if fd in disk.fds:
            return None
        return real_fsync(fd)

    def os_fstat(fd):
        if fd in disk.fds:
            return _Stat(len(disk.files.get(disk.fds[fd].path, b"")))
        return real_fstat(fd)

    os.open, os.close, os.write, os.fsync, os.fstat = os_open, os_close, os_write, os_fsync, os_fstat

    builtins.open = sim_open
    io.open = sim_open

    def wrap(real, simfn):
        def f(path, *a, **kw):
            if is_sim(path):
                return simfn(path, *a, **kw)
            return real(path, *a, **kw)
        return f

    def wrap2(real, simfn):
        def f(src, dst, *a, **kw):
            if is_sim(src) or is_sim(dst):
                return simfn(src, dst)
            return real(src, dst, *a, **kw)
        return f

    class _Stat:
        def __init__(self, n):
            self.st_size = n
            self.st_mode = 0o100644
            self.st_mtime = clock.now_s if clock else 0.0

    os.replace = wrap2(os.replace, disk.replace)
    os.rename = wrap2(os.rename, disk.replace)
    os.remove = wrap(os.remove, disk.remove)
    os.unlink = wrap(os.unlink, disk.remove)
    os.stat = wrap(os.stat, lambda p, *a, **k: _Stat(disk.getsize(p)))
    os.makedirs = wrap(os.makedirs, lambda p, *a, **k: None)
    is_dir = lambda p: str(os.fspath(p)).rstrip("/") == SIM_ROOT.rstrip("/")    # noqa: E731
    os.chmod = wrap(os.chmod, lambda p, *a, **k: None)
    os.utime = wrap(os.utime, lambda p, *a, **k: None)
    os.chown = wrap(os.chown, lambda p, *a, **k: None) if hasattr(os, "chown") else None
    os.access = wrap(os.access, lambda p, *a, **k: disk.exists(p))
    os.lstat = wrap(os.lstat, lambda p, *a, **k: _Stat(disk.getsize(p)))
    os.listdir = wrap(os.listdir, lambda p=".": sorted(k[len(SIM_ROOT):] for k in disk.files))
    os.mkdir = wrap(os.mkdir, lambda p, *a, **k: None)
    osp.isdir = wrap(osp.isdir, is_dir)
    osp.lexists = wrap(osp.lexists, disk.exists)
    osp.exists = wrap(osp.exists, disk.exists)
    osp.isfile = wrap(osp.isfile, lambda p: str(os.fspath(p)) in disk.files)
    osp.getsize = wrap(osp.getsize, disk.getsize)
    try:
        import shutil
        shutil.move = wrap2(shutil.move, disk.replace)
        shutil.copyfile = wrap2(shutil.copyfile, lambda s, d: disk.files.__setitem__(str(d), disk.files[str(s)]))
        shutil.copy = wrap2(shutil.copy, lambda s, d: disk.files.__setitem__(str(d), disk.files[str(s)]))
        shutil.copy2 = wrap2(shutil.copy2, lambda s, d: disk.files.__setitem__(str(d), disk.files[str(s)]))
        shutil.copymode = wrap2(shutil.copymode, lambda s, d: None)
        shutil.copystat = wrap2(shutil.copystat, lambda s, d: None)
    except Exception:
        pass
    if clock is not None:
        _time.time = lambda: clock.now_s
        _time.time_ns = lambda: int(clock.now_s * 1e9)


class BackendProxy:
    """Module-like object for BackendShim._srcmodule: real numpy except for
    the attributes the simulator overrides."""

    def __init__(self, real, **overrides):
        object.__setattr__(self, "_real", real)
        object.__setattr__(self, "_over", dict(overrides))

    def __getattr__(self, key):
        over = object.__getattribute__(self, "_over")
        if key in over:
            return over[key]
        return getattr(object.__getattribute__(self, "_real"), key)


def savetxt_via(disk, real_np):
    """np.savetxt replacement: numpy formats, SimDisk receives the bytes."""
    def savetxt(fname, X, *a, **kw):
        if hasattr(fname, "write"):
            return real_np.savetxt(fname, X, *a, **kw)
        f = disk.open(fname, "w")
        try:
            return real_np.savetxt(f, X, *a, **kw)
        finally:
            f.close()
    return savetxt
