"""Simulator core: seed derivation, run isolation (one forked child per run),
event log + digest, parallel sweep, budgets.

Nothing in here imports prysm at module import time; the code under test is
only ever touched inside a forked child (see ``run_in_child``), so no state of
prysm (executor caches, backend shims, shadowed module globals, precision)
can leak from one simulated run into the next.
"""
import hashlib
import json
import os
import random
import select
import signal
import sys
import time
import traceback

REPO = os.environ.get("VERIF_REPO", "/repo")
VERIF = os.path.dirname(os.path.dirname(os.path.abspath(__file__)))


# --------------------------------------------------------------------------
# environment pinning (must run before numpy is imported anywhere)

_PIN = {
    "OPENBLAS_NUM_THREADS": "1",
    "OMP_NUM_THREADS": "1",
    "MKL_NUM_THREADS": "1",
    "NUMEXPR_NUM_THREADS": "1",
    "VECLIB_MAXIMUM_THREADS": "1",
    "PYTHONHASHSEED": "0",
    "PRYSM_VERIF": "1",
}


def ensure_pinned_env(hashseed=None):
    """Re-exec the interpreter once so that BLAS is single threaded and the
    string hash seed is fixed.  ``VERIF_HASHSEED`` lets the determinism
    self-test choose another hash seed on purpose."""
    want = dict(_PIN)
    if os.environ.get("VERIF_HASHSEED"):
        want["PYTHONHASHSEED"] = os.environ["VERIF_HASHSEED"]
    if all(os.environ.get(k) == v for k, v in want.items()):
        return
    if os.environ.get("_VERIF_REEXEC") == "1":
        # already re-exec'd once; do not loop
        return
    env = dict(os.environ)
    env.update(want)
    env["_VERIF_REEXEC"] = "1"
    os.execve(sys.executable, [sys.executable] + sys.argv, env)


def import_prysm():
    """Import prysm from the working tree named by VERIF_REPO (default /repo)
    and make sure that is really where it came from."""
    if sys.path[0] != REPO:
        sys.path.insert(0, REPO)
    import prysm  # noqa
    here = os.path.realpath(os.path.dirname(prysm.__file__))
    want = os.path.realpath(os.path.join(REPO, "prysm"))
    if here != want:
        raise RuntimeError(f"prysm imported from {here}, expected {want}")
    # import every submodule the checks touch, so that forked children inherit
    # fully imported (but never executed) modules
    import importlib
    for sub in ("mathops", "conf", "fttools", "propagation", "_richdata", "coordinates",
                "interferogram", "io", "detector", "bayer", "util", "polynomials"):
        importlib.import_module("prysm." + sub)
    return prysm


def repo_state():
    import subprocess
    try:
        head = subprocess.run(["git", "-C", REPO, "rev-parse", "HEAD"],
                              capture_output=True, text=True, timeout=20).stdout.strip()
        diff = subprocess.run(["git", "-C", REPO, "diff", "HEAD", "--", "prysm"],
                              capture_output=True, timeout=20).stdout
        return {"repo": REPO, "head": head,
                "diff_sha256": hashlib.sha256(diff).hexdigest() if diff else None}
    except Exception as e:  # pragma: no cover
        return {"repo": REPO, "head": "unknown", "error": repr(e)}


# --------------------------------------------------------------------------
# seeds

def derive(seed, prop, run, salt=""):
    """One integer decides everything: the stream of run `run` of property
    `prop` is a pure function of (seed, prop, run)."""
    h = hashlib.sha256(f"{seed}:{prop}:{run}:{salt}".encode()).digest()
    return int.from_bytes(h[:8], "big")


def run_rng(seed, prop, run):
    r = random.Random(derive(seed, prop, run))
    r.run_index = run
    return r


def rare(rng, p, phase=37):
    """A rare, expensive kind of run (probability p).  Stratified over the run index when the generator
    knows it - one run in round(1/p), starting early - so that a sweep cut short by a loaded machine
    still contains its share of them; otherwise drawn.  Always consumes one draw."""
    c = rng.random()
    idx = getattr(rng, "run_index", None)
    if idx is None:
        return c < p
    period = max(1, round(1 / p))
    return idx % period == phase % period


# --------------------------------------------------------------------------
# canonical JSON / digests

def canon(obj):
    return json.dumps(obj, sort_keys=True, separators=(",", ":"), allow_nan=True)


def digest(obj):
    return hashlib.sha256(canon(obj).encode()).hexdigest()[:24]


def fp_bytes(b):
    return hashlib.sha256(b).hexdigest()[:16]


def fp_array(a):
    """Fingerprint of an ndarray (dtype, shape and raw bytes)."""
    import numpy as np
    a = np.ascontiguousarray(a)
    h = hashlib.sha256()
    h.update(str(a.dtype).encode())
    h.update(str(a.shape).encode())
    h.update(a.tobytes())
    return h.hexdigest()[:16]


# --------------------------------------------------------------------------
# one run = one forked child

class ChildFailure(Exception):
    pass


def run_in_child(fn, arg, timeout=60.0):
    """Execute fn(arg) in a forked child and return its JSON-able result.

    Returns (status, payload): status in {"ok", "error", "timeout", "died"}.
    "error" carries the child's traceback text: an exception escaping `fn` is
    a harness error by construction (the check modules catch everything the
    code under test may raise)."""
    r, w = os.pipe()
    pid = os.fork()
    if pid == 0:  # child
        code = 0
        try:
            os.close(r)
            # the code under test may print (prysm.io does on struct errors): keep
            # the check's stdout clean
            dn = os.open(os.devnull, os.O_WRONLY)
            os.dup2(dn, 1)
            os.dup2(dn, 2)       # and warnings the run lets through on purpose
            try:
                res = fn(arg)
                out = json.dumps({"ok": res}, allow_nan=True)
            except BaseException:  # noqa
                out = json.dumps({"err": traceback.format_exc()})
                code = 3
            data = out.encode()
            off = 0
            while off < len(data):
                off += os.write(w, data[off:off + 65536])
            os.close(w)
        finally:
            os._exit(code)
    os.close(w)
    chunks = []
    deadline = time.monotonic() + timeout
    status = None
    try:
        while True:
            left = deadline - time.monotonic()
            if left <= 0:
                status = "timeout"
                break
            ready, _, _ = select.select([r], [], [], min(left, 1.0))
            if not ready:
                continue
            b = os.read(r, 1 << 16)
            if not b:
                break
            chunks.append(b)
    finally:
        os.close(r)
    if status == "timeout":
        try:
            os.kill(pid, signal.SIGKILL)
        except ProcessLookupError:
            pass
        os.waitpid(pid, 0)
        return "timeout", f"child exceeded {timeout}s"
    _, st = os.waitpid(pid, 0)
    raw = b"".join(chunks)
    try:
        msg = json.loads(raw.decode())
    except Exception:
        return "died", f"child wait status {st}, {len(raw)} bytes of output"
    if "ok" in msg:
        return "ok", msg["ok"]
    return "error", msg.get("err", "?")


# --------------------------------------------------------------------------
# the sweep

def _worker_batch(args):
    """Executed in a pool worker: generate and execute a batch of runs, each
    in its own forked child, and return compact per-run summaries."""
    modname, seed, tier, indices, run_timeout = args
    import importlib
    mod = importlib.import_module(modname)
    # import (never call) the code under test here, so that every forked
    # child starts from the same pristine, already-imported module state
    import_prysm()
    out = []
    for i in indices:
        t0 = time.monotonic()
        try:
            plan = mod.generate(run_rng(seed, mod.PROP, i), tier)
        except BaseException:  # noqa
            out.append({"run": i, "status": "generror", "detail": traceback.format_exc()})
            continue
        status, res = run_in_child(mod.execute, plan, run_timeout)
        if status != "ok":
            out.append({"run": i, "status": status, "detail": res, "plan": plan})
            continue
        summ = {
            "run": i, "status": "ok",
            "digest": digest(res["events"]),
            "nontrivial": bool(res.get("nontrivial")),
            "steps": len(res["events"]),
            "faults": res.get("faults", {}),
            "probes": res.get("probes", {}),
            "trans": res.get("trans", []),
            "extra": res.get("extra", {}),
            "violations": res.get("violations", []),
            "wall": time.monotonic() - t0,
        }
        if summ["violations"] or i < 3:
            summ["plan"] = plan
        out.append(summ)
    return out


def _summarise(i, plan, status, res, t0, keep_plan=False):
    if status != "ok":
        return {"run": i, "status": status, "detail": res, "plan": plan}
    summ = {
        "run": i, "status": "ok",
        "digest": digest(res["events"]),
        "nontrivial": bool(res.get("nontrivial")),
        "steps": len(res["events"]),
        "faults": res.get("faults", {}),
        "probes": res.get("probes", {}),
        "trans": res.get("trans", []),
        "extra": res.get("extra", {}),
        "violations": res.get("violations", []),
        "wall": time.monotonic() - t0,
    }
    if summ["violations"] or keep_plan:
        summ["plan"] = plan
    return summ


def _worker_plans(args):
    """Execute explicit plans (used for enumerated families)."""
    modname, items, run_timeout = args
    import importlib
    mod = importlib.import_module(modname)
    import_prysm()
    out = []
    for i, plan in items:
        t0 = time.monotonic()
        status, res = run_in_child(mod.execute, plan, run_timeout)
        out.append(_summarise(i, plan, status, res, t0))
    return out


def run_plans(modname, plans, first_index, workers=None, run_timeout=600.0):
    from concurrent.futures import ProcessPoolExecutor
    import multiprocessing as mp
    workers = workers or int(os.environ.get("VERIF_WORKERS", "0")) or min(16, os.cpu_count() or 1)
    items = [(first_index + j, p) for j, p in enumerate(plans)]
    chunks = [items[k::workers] for k in range(workers) if items[k::workers]]
    results = []
    with ProcessPoolExecutor(max_workers=workers, mp_context=mp.get_context("fork")) as ex:
        for res in ex.map(_worker_plans, [(modname, c, run_timeout) for c in chunks]):
            results.extend(res)
    results.sort(key=lambda r: r["run"])
    return results


def sweep(modname, seed, tier, n_runs, budget_s, workers=None, batch=16,
          run_timeout=60.0, on_batch=None, first=0):
    """Run up to n_runs simulated runs (indices first..first+n_runs-1) on a
    pool of forking workers, stopping early when budget_s wall seconds have
    passed.  Yields nothing; returns the list of per-run summaries."""
    from concurrent.futures import ProcessPoolExecutor, wait, FIRST_COMPLETED
    import multiprocessing as mp
    workers = workers or int(os.environ.get("VERIF_WORKERS", "0")) or min(16, os.cpu_count() or 1)
    ctx = mp.get_context("fork")
    t0 = time.monotonic()
    results = []
    idx = first
    end = first + n_runs
    pending = set()
    with ProcessPoolExecutor(max_workers=workers, mp_context=ctx) as ex:
        def submit():
            nonlocal idx
            while idx < end and len(pending) < workers * 2:
                if time.monotonic() - t0 > budget_s:
                    return
                chunk = list(range(idx, min(end, idx + batch)))
                idx += len(chunk)
                pending.add(ex.submit(_worker_batch, (modname, seed, tier, chunk, run_timeout)))
        submit()
        while pending:
            done, _ = wait(pending, timeout=5.0, return_when=FIRST_COMPLETED)
            for f in done:
                pending.discard(f)
                res = f.result()
                results.extend(res)
                if on_batch:
                    on_batch(res)
            submit()
    results.sort(key=lambda r: r["run"])
    return results
