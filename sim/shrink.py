"""Minimisation of a failing (ops, faults) plan: ddmin over the op list, then
module-specific typed simplifiers, repeated to a fixed point.  Every candidate
is executed in a fresh forked child; a candidate is kept only when the *same
violation signature* is still reported."""
import copy
import time

from . import core


def _fails(mod, plan, sig, timeout, stats):
    stats["candidates"] += 1
    status, res = core.run_in_child(mod.execute, plan, timeout)
    if status != "ok":
        return None
    for v in res.get("violations", []):
        if mod.signature(v) == sig:
            return v
    return None


_COST = {"fn": None}


def _key(plan):
    """Well-founded complexity order on plans (fewer ops, module-specific cost,
    shorter, then lexical)."""
    c = core.canon(plan)
    extra = _COST["fn"](plan) if _COST["fn"] else ()
    return (len(plan["ops"]),) + tuple(extra) + (len(c), c)


def ddmin_ops(mod, plan, sig, timeout, stats, deadline):
    ops = plan["ops"]
    n = 2
    while len(ops) >= 2 and time.monotonic() < deadline:
        chunk = max(1, len(ops) // n)
        reduced = False
        # try removing each chunk (complement test); from the end first, since
        # the failing call is usually late in the history
        starts = list(range(0, len(ops), chunk))
        for s in reversed(starts):
            cand_ops = ops[:s] + ops[s + chunk:]
            if not cand_ops:
                continue
            cand = dict(plan)
            cand["ops"] = cand_ops
            if _fails(mod, cand, sig, timeout, stats):
                ops = cand_ops
                plan = cand
                n = max(n - 1, 2)
                reduced = True
                break
            if time.monotonic() > deadline:
                break
        if not reduced:
            if chunk == 1:
                break
            n = min(len(ops), n * 2)
    plan = dict(plan)
    plan["ops"] = ops
    return plan


def shrink(mod, plan, sig, timeout=30.0, budget_s=60.0):
    """Return (minimised plan, violation, stats)."""
    stats = {"candidates": 0, "ops_before": len(plan["ops"])}
    _COST["fn"] = getattr(mod, "plan_cost", None)
    core.import_prysm()   # imported, never called, in this process; children fork from it
    deadline = time.monotonic() + budget_s
    plan = copy.deepcopy(plan)
    v = _fails(mod, plan, sig, timeout, stats)
    if v is None:
        return None, None, stats
    for _round in range(6):
        before = core.canon(plan)
        plan = ddmin_ops(mod, plan, sig, timeout, stats, deadline)
        progress = True
        while progress and time.monotonic() < deadline:
            progress = False
            cur = _key(plan)
            for cand in mod.simplifiers(plan):
                if time.monotonic() > deadline:
                    break
                if not _key(cand) < cur:
                    continue   # only strictly simpler candidates: no cycles
                if _fails(mod, cand, sig, timeout, stats):
                    plan = cand
                    progress = True
                    break
        if core.canon(plan) == before or time.monotonic() > deadline:
            break
    v = _fails(mod, plan, sig, timeout, stats)
    stats["ops_after"] = len(plan["ops"])
    return plan, v, stats
