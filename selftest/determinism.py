#!/venv/bin/python
"""Determinism self-test: the same VERIF_SEED must give the same event-log
digest for every run, whatever the worker count, the interpreter instance and
the string hash seed.  Runs each property's sweep several times in separate
interpreters and diffs the per-run digests.

usage: determinism.py [--runs 1500] [--props C01,C12,C14,C16] [--seeds 1,2]
"""
import argparse, json, os, subprocess, sys, tempfile
HERE = os.path.dirname(os.path.abspath(__file__))
VERIF = os.path.dirname(HERE)
ap = argparse.ArgumentParser()
ap.add_argument("--runs", type=int, default=1500)
ap.add_argument("--props", default="C01,C12,C14,C16")
ap.add_argument("--seeds", default="1,20260927")
ap.add_argument("--tier", default="quick")
a = ap.parse_args()
CONFIGS = [("w16-h0", 16, "0"), ("w16-h0-again", 16, "0"), ("w4-h777", 4, "777"), ("w1-h31337", 1, "31337")]
bad = 0
report = []
for prop in a.props.split(","):
    for seed in a.seeds.split(","):
        outs = {}
        for name, workers, hs in CONFIGS:
            d = tempfile.mkdtemp(prefix="verif_det_", dir="/dev/shm")
            env = dict(os.environ, VERIF_SEED=seed, VERIF_WORKERS=str(workers), VERIF_HASHSEED=hs, PYTHONHASHSEED=hs,
                       VERIF_OUT=d)
            env.pop("_VERIF_REEXEC", None)
            runs = a.runs if workers > 1 else max(100, a.runs // 6)
            f = os.path.join(d, "digests.json")
            p = subprocess.run([sys.executable, os.path.join(VERIF, "run_check.py"), prop, "--tier", a.tier, "--runs", str(runs),
                                "--budget", "600", "--dump-digests", f], capture_output=True, text=True, env=env, timeout=7200)
            if p.returncode not in (0,) or not os.path.exists(f):
                print(f"{prop} seed={seed} {name}: check exit {p.returncode}\n{p.stdout[-400:]}")
                bad += 1
                continue
            outs[name] = json.load(open(f))
            subprocess.run(["rm", "-rf", d])
        ref = outs.get("w16-h0", {})
        for name, dg in outs.items():
            common = [k for k in dg if k in ref]
            diff = [k for k in common if dg[k] != ref[k]]
            report.append({"prop": prop, "seed": seed, "config": name, "runs_compared": len(common), "mismatches": len(diff)})
            print(json.dumps(report[-1]), flush=True)
            bad += len(diff)
json.dump(report, open(os.path.join(HERE, "determinism_report.json"), "w"), indent=1)
print("DETERMINISM", "OK" if not bad else f"BROKEN ({bad})")
sys.exit(1 if bad else 0)
