#!/venv/bin/python
"""Run every seeded change under /verif/seeded against its property's check: all must be caught (exit 1).
usage: seeded.py [--prop C01] [--tier quick] [--jobs 4]"""
import argparse, glob, json, os, subprocess, sys
HERE = os.path.dirname(os.path.abspath(__file__)); VERIF = os.path.dirname(HERE)
ap = argparse.ArgumentParser(); ap.add_argument("--prop"); ap.add_argument("--tier", default="quick"); ap.add_argument("--jobs", type=int, default=4)
a = ap.parse_args()
dirs = sorted(d for d in glob.glob(os.path.join(VERIF, "seeded", "*")) if not a.prop or os.path.basename(d).startswith(a.prop))
from concurrent.futures import ThreadPoolExecutor
def one(d):
    prop = os.path.basename(d).split("-")[0]
    p = subprocess.run([sys.executable, os.path.join(VERIF, "tools", "try_seeded.py"), prop, os.path.join(d, "patch.diff"),
                        os.path.join(d, "demo.py"), "--tier", a.tier, "--no-baseline"], capture_output=True, text=True, timeout=7200)
    try:
        r = json.loads(p.stdout.strip().splitlines()[-1])
    except Exception:
        r = {"verdict": "ERROR", "raw": (p.stdout + p.stderr)[-300:]}
    print(os.path.basename(d), r.get("verdict"), r.get("violations", [])[:3], flush=True)
    return os.path.basename(d), r.get("verdict")
with ThreadPoolExecutor(a.jobs) as ex:
    res = list(ex.map(one, dirs))
bad = [i for i, v in res if v != "caught"]
print(f"{len(res) - len(bad)}/{len(res)} seeded changes caught; not caught: {bad}")
sys.exit(1 if bad else 0)
