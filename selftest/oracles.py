#!/venv/bin/python
"""Sanity checks of the harness's own oracles and stand-ins, independent of
prysm: the reference DFT against numpy's FFT, the monotone coupling of
SimRandom, SimDisk fault semantics, SimClock.  exit 0 iff all hold."""
import math
import os
import sys

sys.path.insert(0, os.path.dirname(os.path.dirname(os.path.abspath(__file__))))
import numpy as np  # noqa

from checks import c01, c16  # noqa
from sim.faults import SimDisk, SimClock, SimCrash  # noqa

fails = []


def check(name, ok, detail=""):
    print(("ok   " if ok else "FAIL ") + name + (" " + detail if detail and not ok else ""))
    if not ok:
        fails.append(name)


# --- reference DFT vs numpy FFT (Q=1, out=in, no shift), all parities, both directions
g = np.random.default_rng(0)
worst = 0.0
for m in range(1, 10):
    for n in range(1, 10):
        f = g.standard_normal((m, n)) + 1j * g.standard_normal((m, n))
        fw = np.fft.fftshift(np.fft.fft2(np.fft.ifftshift(f), norm="ortho"))
        bw = np.fft.fftshift(np.fft.ifft2(np.fft.ifftshift(f), norm="ortho"))
        worst = max(worst, np.abs(c01.ref_dft(np, f, (1.0, 1.0), (m, n), (0.0, 0.0), True) - fw).max(),
                    np.abs(c01.ref_dft(np, f, (1.0, 1.0), (m, n), (0.0, 0.0), False) - bw).max())
check("ref_dft equals centred ortho FFT for every shape 1..9 x 1..9", worst < 1e-12, f"worst {worst:.2e}")

# --- reference DFT vs a literal quadruple loop (per-axis Q, shift, rectangular output)
f = g.standard_normal((3, 4)) + 1j * g.standard_normal((3, 4))
Q, out, sh = (1.3, 0.7), (5, 2), (0.4, -1.25)
lit = np.zeros(out, dtype=complex)
for v in range(out[0]):
    for u in range(out[1]):
        acc = 0
        for y in range(3):
            for x in range(4):
                acc += f[y, x] * np.exp(-2j * np.pi * ((y - 1) * (v - out[0] // 2 - sh[1]) / (3 * Q[0])
                                                      + (x - 2) * (u - out[1] // 2 - sh[0]) / (4 * Q[1])))
        lit[v, u] = acc / math.sqrt(3 * Q[0] * 4 * Q[1])
check("ref_dft equals the literal double sum (per-axis Q, fractional shift)",
      np.abs(lit - c01.ref_dft(np, f, Q, out, sh, True)).max() < 1e-12)

# --- Parseval on the Nyquist-complete grid
f = g.standard_normal((6, 6))
F = c01.ref_dft(np, f, (1.0, 1.0), (6, 6), (0.0, 0.0), True)
check("ref_dft is unitary at Q=1", abs((np.abs(F) ** 2).sum() - (f ** 2).sum()) < 1e-10)

# --- SimRandom: coupled / tails draws are non-decreasing in the mean for fixed z
ok = True
for mode in ("coupled", "tails"):
    for seed in range(20):
        lam1 = g.random(200) * 10 ** g.uniform(-2, 6)
        lam2 = lam1 + g.random(200) * 10 ** g.uniform(-3, 6)
        s = c16.SimRandom(np, mode, seed)
        s.begin_exposure(False)
        a = s.poisson(lam1, (1, 200))
        s.begin_exposure(True)
        b = s.poisson(lam2, (1, 200))
        ok &= bool(np.all(b >= a)) and bool(np.all(a >= 0))
check("SimRandom poisson is monotone in the mean under common random numbers", ok)
s = c16.SimRandom(np, "off", 1)
check("SimRandom off mode is noise free", np.array_equal(s.poisson(np.array([0.5, 3.0]), (2, 2)), [[0.5, 3.0]] * 2)
      and not s.normal(0, 5.0, (3,)).any())
s1, s2 = c16.SimRandom(np, "coupled", 7), c16.SimRandom(np, "coupled", 7)
s1.begin_exposure(False)
s2.begin_exposure(False)
check("SimRandom is a pure function of (seed, exposure, call index)",
      np.array_equal(s1.normal(0, 1, (5,)), s2.normal(0, 1, (5,))))

# --- SimDisk
d = SimDisk()
with d.open("/a", "wb") as fh:
    fh.write(b"0123456789")
check("SimDisk write/read round trip", d.open("/a", "rb").read() == b"0123456789")
d.arm("/a", {"kind": "enospc", "at": 4})
try:
    fh = d.open("/a", "wb")
    fh.write(b"abcdefgh")
    check("ENOSPC raised", False)
except OSError as e:
    check("ENOSPC at byte 4 keeps exactly the prefix, open-for-write truncated the old content",
          d.files["/a"] == b"abcd" and e.errno == 28)
d.arm("/a", {"kind": "crash", "at": 6, "survive": 2})
try:
    fh = d.open("/a", "wb")
    fh.write(b"abc")
    fh.write(b"defgh")
    check("crash raised", False)
except SimCrash:
    check("crash at byte 6 leaves the seeded surviving prefix (2 bytes)", d.files["/a"] == b"ab")
d.arm("/a", {"kind": "eio_close"})
fh = d.open("/a", "wb")
fh.write(b"xyz")
try:
    fh.close()
    check("EIO on close raised", False)
except OSError:
    check("EIO on close leaves the data down", d.files["/a"] == b"xyz")
d.arm("/a", {"kind": "eio_read"})
try:
    d.open("/a", "rb").read()
    check("EIO on read raised", False)
except OSError:
    check("EIO on read raised", True)
try:
    d.open("/nope", "rb")
    check("missing file", False)
except FileNotFoundError:
    check("missing file raises FileNotFoundError", True)
P = d.path_class()
check("SimPath.read_text", P("/a").expanduser().read_text() == "xyz")

# --- SimClock
c = SimClock(1.7e9)
t1 = c.datetime.now().timestamp()
c.advance(3600)
check("SimClock only moves when told and is timezone independent",
      t1 == 1.7e9 and c.datetime.now().timestamp() == 1.7e9 + 3600)

print("ORACLE SELF-TEST", "OK" if not fails else f"FAILED: {fails}")
sys.exit(1 if fails else 0)
