"""Sensitivity mutants: small realistic changes to prysm, each as
(id, property, file, old, new, note).  Applied by exact string replacement to
a scratch copy of the repository; `old` must occur exactly once."""

M = []


def mut(mid, prop, file, old, new, note="", more=()):
    """One mutant = one or more exact string replacements (file, old, new)."""
    edits = [(file, old, new)] + [tuple(e) for e in more]
    M.append({"id": mid, "prop": prop, "edits": edits, "note": note})


# ------------------------------------------------------------------ C01
F = "prysm/fttools.py"
mut("c01-key-int-shift", "C01", F,
    "        if not isinstance(shift, Iterable):\n            shift = (shift, shift)\n\n        return (Q,",
    "        if not isinstance(shift, Iterable):\n            shift = (shift, shift)\n        shift = tuple(int(s) for s in shift)\n\n        return (Q,",
    "shift truncated to integers in the key (and hence in the bases): fractional shifts only")
mut("c01-clear-keeps-eout", "C01", F,
    "            self.Ein[key]\n        except KeyError:\n            # X is the second",
    "            self.Eout[key]\n        except KeyError:\n            # X is the second",
    "two cooperating sites: the probe looks at Eout, clear() forgets Eout -> first call after clear() fails",
    more=[(F, "        \"\"\"Empty the internal caches to release memory.\"\"\"\n        self.Ein = {}\n        self.Eout = {}",
           "        \"\"\"Empty the internal caches to release memory.\"\"\"\n        self.Ein = {}")])
mut("c01-key-drops-Q", "C01", F,
    "return (Q, samples_in, samples_out, shift, fwd, config.precision)",
    "return ((1, 1), samples_in, samples_out, shift, fwd, config.precision)",
    "Q always keyed (and used) as 1: visible only for Q != 1")
mut("c01-key-drops-precision", "C01", F,
    "return (Q, samples_in, samples_out, shift, fwd, config.precision)",
    "return (Q, samples_in, samples_out, shift, fwd, None)",
    "the repaired defect, re-introduced")
mut("c01-key-drops-samples-out", "C01", F,
    "        return (Q, samples_in, samples_out, shift, fwd, config.precision)",
    "        samples_out = tuple(samples_out)\n        return (Q, samples_in, (samples_out[0], samples_out[0]), shift, fwd, config.precision)",
    "second output size ignored")
mut("c01-ein-mutated-in-place", "C01", F,
    "        Eout, Ein = self.Eout[key], self.Ein[key]\n\n        out = Eout @ ary @ Ein\n",
    "        Eout, Ein = self.Eout[key], self.Ein[key]\n        if ary.dtype == np.float32:\n            Ein *= 1\n            Ein.real = Ein.real.astype(np.float32)\n\n        out = Eout @ ary @ Ein\n",
    "a float32 call degrades the cached basis for later float64 calls")
mut("c01-swap-Na-Ma", "C01", F,
    "                Eout = np.exp(-2j * np.pi / Na * mn * np.outer(Y, V).T)\n                Ein = np.exp(-2j * np.pi / Ma * mm * np.outer(X, U))",
    "                Eout = np.exp(-2j * np.pi / Ma * mn * np.outer(Y, V).T)\n                Ein = np.exp(-2j * np.pi / Na * mm * np.outer(X, U))",
    "axis lengths swapped in the forward exponent: non-square only")
mut("c01-drop-one-sqrt", "C01", F,
    "            normx = np.sqrt(alphax)", "            normx = alphax",
    "normalisation")
mut("c01-shift-X-not-U", "C01", F,
    "                X -= shift[0]\n                U -= shift[0]", "                X -= shift[0]",
    "shift applied to input coordinates only: modulus changes for shifted calls")
mut("c01-czt-key-drops-alphay", "C01", F,
    "        key = (m, n, M, N, K, L, alphay, alphax, *shift, dtype, True)",
    "        key = (m, n, M, N, K, L, alphax, alphax, *shift, dtype, True)",
    "row chirp constant replaced by the column one (per-axis Q / non-square)")
mut("c01-czt-cache-ignores-shift", "C01", F,
    "        key = (m, n, M, N, K, L, alphay, alphax, *shift, dtype, True)\n        self._setup_bases(key)",
    "        key = (m, n, M, N, K, L, alphay, alphax, *shift, dtype, True)\n        for k2 in self.components:\n            if k2[:8] == key[:8] and k2[10:] == key[10:]:\n                key = k2\n                break\n        self._setup_bases(key)",
    "chirp-Z reuses cached components of another shift")
mut("c01-czt-clear-noop", "C01", F,
    "        \"\"\"Empty the cache.\"\"\"\n        self.components = {}",
    "        \"\"\"Empty the cache.\"\"\"\n        pass",
    "equivalent-looking; harmless alone (kept to show the check stays silent)", )
mut("c01-focus-no-ortho", "C01", "prysm/propagation.py",
    "    impulse_response = fft.fftshift(fft.fft2(fft.ifftshift(padded_wavefront), norm='ortho'))",
    "    impulse_response = fft.fftshift(fft.fft2(fft.ifftshift(padded_wavefront)))",
    "FFT route normalisation")
mut("c01-unfocus-shift-swap", "C01", "prysm/propagation.py",
    "    return fft.fftshift(fft.ifft2(fft.ifftshift(padded_wavefront), norm='ortho'))",
    "    return fft.ifftshift(fft.ifft2(fft.fftshift(padded_wavefront), norm='ortho'))",
    "fftshift/ifftshift swapped: odd sizes only")
mut("c01-ffs-shift-units", "C01", "prysm/propagation.py",
    "    if shift[0] != 0 or shift[1] != 0:\n        shift = (shift[0]/output_dx, shift[1]/output_dx)\n\n    if method == 'mdft':\n        out = mdft.dft2(ary=wavefunction, Q=Q, samples_out=output_samples, shift=shift)",
    "    if method == 'mdft':\n        out = mdft.dft2(ary=wavefunction, Q=Q, samples_out=output_samples, shift=shift)",
    "focus_fixed_sampling forgets to convert the shift to samples")
mut("c01-pad-offset", "C01", F,
    "        dbytwo = [o//2 - i//2 for o, i in zip(out_shape, in_shape)]",
    "        dbytwo = [math.ceil((o - i)/2) for o, i in zip(out_shape, in_shape)]",
    "the repaired pad2d defect, re-introduced (even -> odd)")

mut("c01-czt-origin-float32-shift", "C01", F,
    "    start = -(N // 2 - M // 2) + float(shift)\n",
    "    start = -(N // 2 - M // 2) + shift\n",
    "the 20th repaired defect, re-introduced: visible only for numpy float32 shift scalars")
mut("c01-czt-shift-via-float32", "C01", F,
    "    start = -(N // 2 - M // 2) + float(shift)\n",
    "    start = -(N // 2 - M // 2) + float(np.float32(shift))\n",
    "kernel origin uses the shift rounded to single precision, the post-chirp does not: fractional shifts that are not float32-exact")

# ------------------------------------------------------------------ C12
I = "prysm/interferogram.py"
mut("c12-recenter-keeps-polar", "C12", I,
    "        self.y -= self.y[c]\n        self._r = None\n        self._t = None",
    "        self.y -= self.y[c]", "recenter leaves r, t stale")
mut("c12-crop-forgets-t", "C12", I,
    "            self.r = self.r[lr, tb]\n            self.t = self.t[lr, tb]",
    "            self.r = self.r[lr, tb]", "crop slices r but not t")
mut("c12-crop-forgets-y", "C12", I,
    "            self.x = self.x[lr, tb]\n            self.y = self.y[lr, tb]",
    "            self.x = self.x[lr, tb]", "crop slices x but not y")
mut("c12-strip-keeps-polar", "C12", I,
    "        self._r = None\n        self._t = None\n        self._latcaled = False",
    "        self._latcaled = False", "the repaired defect, re-introduced")
mut("c12-pad-no-coords", "C12", I,
    "        self.data = pad2d(self.data, value=value, out_shape=shape)\n        return self.latcal(self.dx)",
    "        self.data = pad2d(self.data, value=value, out_shape=shape)\n        return self",
    "pad does not regenerate coordinates")
mut("c12-latcal-no-dx", "C12", I,
    "        self.y *= plate_scale\n        self.dx = plate_scale",
    "        self.y *= plate_scale", "latcal forgets dx")
mut("c12-piston-nan-unaware", "C12", I,
    "        self.data -= mean(self.data)", "        self.data -= self.data.mean()",
    "NaN-unaware mean wipes the whole map when any sample is invalid")
mut("c12-fill-on-copy", "C12", I,
    "        nans = np.isnan(self.data)\n        self.data[nans] = _with",
    "        nans = np.isnan(self.data)\n        data = self.data.copy()\n        data[nans] = _with",
    "fill works on a copy")
mut("c12-spike-no-abs", "C12", I,
    "        pts_over_nsigma = abs(self.data) > nsigma * self.std",
    "        pts_over_nsigma = self.data > nsigma * self.std",
    "negative spikes survive: changes WHICH samples spike_clip invalidates, which no clause of C12 fixes (it may only invalidate) -> silence is the right verdict; kept as a false-alarm probe")
mut("c12-Sa-total-size", "C12", "prysm/util.py",
    "    return abs(ary - mean).sum() / ary.size", "    return abs(ary - mean).sum() / array.size",
    "Sa divides by the total size incl. invalid samples")
mut("c12-crop-off-by-one", "C12", I,
    "        elif left == 0:\n            lr = slice(-right)",
    "        elif left == 0:\n            lr = slice(-right - 1)", "crop drops a valid row when NaNs are on one side only")
mut("c12-power-uncentred", "C12", I,
    "    focus_c = focus - focus.mean()", "    focus_c = focus", "the repaired defect, re-introduced")
mut("c12-std-nan-aware-lost", "C12", "prysm/util.py",
    "    non_nan = np.isfinite(array)\n    ary = array[non_nan]\n    return ary.std()",
    "    return np.nanstd(array) if array.size < 50 else array[np.isfinite(array)].std(ddof=1)",
    "std switches to the sample estimator for larger maps")

# ------------------------------------------------------------------ C14
O = "prysm/io.py"
mut("c14-backtrack-floor", "C14", O,
    "        backtrack = math.ceil(len(missing_buf)/4)", "        backtrack = math.floor(len(missing_buf)/4)",
    "a half-read sample survives as garbage")
mut("c14-no-warning", "C14", O,
    "        warnings.warn('provided file was malformed (truncated) - appending zeros to phase data')",
    "        pass", "silent zero extension")
mut("c14-sentinel-off", "C14", O,
    "    phase[phase >= ZYGO_INVALID_PHASE] = np.nan", "    phase[phase > ZYGO_INVALID_PHASE] = np.nan",
    "invalid sentinel compared strictly")
mut("c14-native-endian", "C14", O,
    "    dt = np.dtype(np.int32).newbyteorder('>')\n    bufphs = im.astype(dt).tobytes(order='C')",
    "    bufphs = im.astype(np.int32).tobytes(order='C')", "writer forgets big-endian")
mut("c14-writer-no-flip", "C14", O,
    "    phase = np.flipud(phase)\n    mask = np.isnan(phase)", "    mask = np.isnan(phase)", "writer flip removed")
mut("c14-latres-offset", "C14", O,
    "        'lateral_resolution': (FB32, 184, 188, 1.),", "        'lateral_resolution': (FB32, 188, 192, 1.),",
    "header field moved by 4 bytes")
mut("c14-dx-units", "C14", O,
    "    defaults['lateral_resolution'][3] = dx/1e3  # mm -> m", "    defaults['lateral_resolution'][3] = dx  # mm -> m",
    "dx unit conversion dropped")
mut("c14-codev-nda-lost", "C14", O,
    "    array[NDA_PIX] = -32768\n", "    array[NDA_PIX] = -32767\n", "NDA sentinel off by one")
mut("c14-codev-ssz-rounded", "C14", O,
    "    scale = 32767 / absmax\n", "    scale = float(round(32767 / absmax, 2))\n", "SSZ rounded after scaling: overflow for some maps")
mut("c14-codev-reader-flip", "C14", O,
    "    a = a.reshape((n, m))\n    a = np.flipud(a)", "    a = a.reshape((n, m))", "reader forgets the flip")
mut("c14-zygo-reader-flip-1d", "C14", O,
    "    phase = phase_raw.astype(config.precision).reshape((ph, pw))\n    phase = np.flipud(phase)",
    "    phase = np.flipud(phase_raw).astype(config.precision).reshape((ph, pw))",
    "the repaired defect, re-introduced")
mut("c14-ifg-wavelength-units", "C14", I,
    "                    wavelength *= 1e6  # m to um", "                    wavelength *= 1e3  # m to um",
    "Interferogram.from_zygo_dat wavelength scale")
mut("c14-trunc-mark-head", "C14", O,
    "        phase_raw[-backtrack:] = ZYGO_INVALID_PHASE", "        phase_raw[:backtrack] = ZYGO_INVALID_PHASE",
    "wrong end marked invalid")

# ------------------------------------------------------------------ C16
D = "prysm/detector.py"
mut("c16-no-fwc-clip", "C16", D,
    "        input_to_adc[input_to_adc > self.fwc] = self.fwc\n", "", "full well clip removed")
mut("c16-no-negative-clip", "C16", D,
    "        output[output < 0] = 0\n", "", "negative read-noise tail wraps to a huge DN")
mut("c16-bias-subtracted", "C16", D,
    "        input_to_adc = (shot_noise + read_noise + self.bias)", "        input_to_adc = (shot_noise + read_noise - self.bias)",
    "bias sign")
mut("c16-gain-multiplied", "C16", D,
    "        scaling = 1 / self.conversion_gain", "        scaling = self.conversion_gain", "gain direction")
mut("c16-cap-2bits", "C16", D,
    "        adc_cap = 2 ** self.bits - 1  # largest code of an n-bit converter", "        adc_cap = 2 ** self.bits",
    "the repaired defect, re-introduced")
mut("c16-bin-avg-sum-swapped", "C16", D,
    "        output_data = intermediate_view.mean(axis=reduction_axes)\n    elif mode.lower() == 'sum':\n        output_data = intermediate_view.sum(axis=reduction_axes)",
    "        output_data = intermediate_view.sum(axis=reduction_axes)\n    elif mode.lower() == 'sum':\n        output_data = intermediate_view.mean(axis=reduction_axes)",
    "bindown avg <-> sum")
mut("c16-tile-scale-dropped", "C16", D,
    "        sf = 1 / sf\n", "        sf = 1\n", "tile 'sum' scaling dropped")
mut("c16-bggr-swap", "C16", "prysm/bayer.py",
    "    elif cfa == 'bggr':\n        b = img[top_left]\n        g1 = img[top_right]\n        g2 = img[bottom_left]\n        r = img[bottom_right]",
    "    elif cfa == 'bggr':\n        b = img[top_left]\n        g1 = img[bottom_left]\n        g2 = img[top_right]\n        r = img[bottom_right]",
    "g1/g2 swapped in the bggr branch of decomposite only")
mut("c16-malvar-native-green", "C16", "prysm/bayer.py",
    "    green[top_right] = img[top_right]\n    green[bottom_left] = img[bottom_left]\n",
    "    green[top_right] = img[top_right]\n", "Malvar: one native green site not copied")
mut("c16-uint16-for-17bits", "C16", D,
    "        elif self.bits <= 16:", "        elif self.bits <= 17:", "17-bit data put in a 16-bit container")
mut("c16-prnu-on-dark-frame-order", "C16", D,
    "        output[output > adc_cap] = adc_cap", "        output[output >= adc_cap] = adc_cap - 1",
    "saturated pixels read one code low")
