#!/venv/bin/python
"""Sensitivity self-test: apply each mutant to a scratch copy of the
repository under /dev/shm, run the property's check against it and require
exit 1 (a VIOLATION line).  Also reports whether the mutant still passes the
repository's own test baseline.

usage: sensitivity.py [--prop C01] [--only id,id] [--tier quick] [--baseline] [--jobs N]
"""
import argparse, json, os, shutil, subprocess, sys, tempfile, time
HERE = os.path.dirname(os.path.abspath(__file__))
VERIF = os.path.dirname(HERE)
sys.path.insert(0, HERE)
from mutants import M  # noqa


def make_copy(tag):
    d = tempfile.mkdtemp(prefix=f"prysm_mut_{tag}_", dir="/dev/shm")
    subprocess.run(["rsync", "-a", "--exclude", ".git", "--exclude", "docs", "--exclude", "__pycache__",
                    "/repo/", d + "/"], check=True)
    return d


def apply(mutant, root):
    for (file, old, new) in mutant["edits"]:
        p = os.path.join(root, file)
        s = open(p).read()
        if s.count(old) != 1:
            return f"pattern occurs {s.count(old)} times in {file}"
        open(p, "w").write(s.replace(old, new))
    return None


def run_one(mutant, tier, baseline, budget):
    root = make_copy(mutant["id"])
    out = {"id": mutant["id"], "prop": mutant["prop"], "note": mutant["note"]}
    try:
        err = apply(mutant, root)
        if err:
            out["status"] = "STALE-MUTANT: " + err
            return out
        env = dict(os.environ, VERIF_REPO=root, VERIF_OUT=os.path.join(root, "_out"))
        env.pop("_VERIF_REEXEC", None)
        t0 = time.time()
        cmd = [sys.executable, os.path.join(VERIF, "run_check.py"), mutant["prop"], "--tier", tier]
        if budget:
            cmd += ["--budget", str(budget)]
        p = subprocess.run(cmd, capture_output=True, text=True, env=env, timeout=3600)
        out["exit"] = p.returncode
        out["wall_s"] = round(time.time() - t0, 1)
        out["violations"] = [ln.split("replay=")[1].split("/")[-1] for ln in p.stdout.splitlines() if ln.startswith("VIOLATION")]
        out["harness"] = [ln[:200] for ln in p.stdout.splitlines() if ln.startswith("HARNESS-ERROR")][:2]
        out["status"] = "caught" if p.returncode == 1 else ("MISSED" if p.returncode == 0 else "HARNESS-ERROR")
        # the minimised replay must fail the same way in a fresh process on the
        # mutated tree and must not reproduce on the unchanged tree
        reps = [ln.split("replay=")[1].strip() for ln in p.stdout.splitlines() if ln.startswith("VIOLATION")]
        if reps:
            r1 = subprocess.run([sys.executable, os.path.join(VERIF, "run_check.py"), "--replay", reps[0]],
                                capture_output=True, text=True, env=env, timeout=900)
            env2 = dict(env)
            env2.pop("VERIF_REPO")
            r2 = subprocess.run([sys.executable, os.path.join(VERIF, "run_check.py"), "--replay", reps[0]],
                                capture_output=True, text=True, env=env2, timeout=900)
            out["replay_on_mutant_exit"] = r1.returncode
            out["replay_on_unchanged_exit"] = r2.returncode
            if r1.returncode != 1 or r2.returncode != 0:
                out["status"] = "REPLAY-MISMATCH"
        if baseline:
            b = subprocess.run([sys.executable, os.path.join(VERIF, "tools", "baseline.py"), root],
                               capture_output=True, text=True, timeout=3600)
            out["passes_existing_tests"] = b.returncode == 0
    finally:
        shutil.rmtree(root, ignore_errors=True)
    return out


def main():
    ap = argparse.ArgumentParser()
    ap.add_argument("--prop")
    ap.add_argument("--only")
    ap.add_argument("--tier", default="quick")
    ap.add_argument("--baseline", action="store_true")
    ap.add_argument("--budget", type=float)
    ap.add_argument("--out", default=os.path.join(HERE, "sensitivity_report.json"))
    a = ap.parse_args()
    todo = [m for m in M if (not a.prop or m["prop"] == a.prop) and (not a.only or m["id"] in a.only.split(","))]
    res = []
    for m in todo:
        r = run_one(m, a.tier, a.baseline, a.budget)
        res.append(r)
        print(json.dumps(r), flush=True)
    missed = [r["id"] for r in res if r["status"] != "caught"]
    json.dump({"tier": a.tier, "results": res, "missed": missed}, open(a.out, "w"), indent=1)
    print(f"{len(res) - len(missed)}/{len(res)} mutants caught; not caught: {missed}")
    return 1 if missed else 0


if __name__ == "__main__":
    sys.exit(main())
