#!/venv/bin/python
"""False-alarm self-test: every behaviour-preserving refactor under /verif/refactors must leave its
property's check silent (exit 0).  usage: false_alarm.py [--prop C12] [--tier quick]"""
import argparse, glob, json, os, subprocess, sys
HERE = os.path.dirname(os.path.abspath(__file__)); VERIF = os.path.dirname(HERE)
ap = argparse.ArgumentParser(); ap.add_argument("--prop"); ap.add_argument("--tier", default="quick"); ap.add_argument("--jobs", type=int, default=4)
a = ap.parse_args()
dirs = sorted(d for d in glob.glob(os.path.join(VERIF, "refactors", "*")) if not a.prop or os.path.basename(d).startswith(a.prop))
from concurrent.futures import ThreadPoolExecutor
def one(d):
    prop = os.path.basename(d).split("-")[0]
    p = subprocess.run([sys.executable, os.path.join(VERIF, "tools", "try_refactor.py"), prop, os.path.join(d, "patch.diff"), "--tier", a.tier, "--baseline"],
                       capture_output=True, text=True, timeout=7200)
    try:
        r = json.loads(p.stdout.strip().splitlines()[-1])
    except Exception:
        r = {"verdict": "ERROR", "raw": (p.stdout + p.stderr)[-300:]}
    r["id"] = os.path.basename(d)
    json.dump({k: r.get(k) for k in ("id", "verdict", "check_exit", "passes_existing_tests", "lines")}, open(os.path.join(d, "result.json"), "w"), indent=1)
    print(r["id"], r.get("verdict"), "tests_pass=", r.get("passes_existing_tests"), flush=True)
    return r
with ThreadPoolExecutor(a.jobs) as ex:
    res = list(ex.map(one, dirs))
bad = [r["id"] for r in res if not str(r.get("verdict", "")).startswith("silent")]
print(f"{len(res) - len(bad)}/{len(res)} refactors left the checks silent; alarms: {bad}")
sys.exit(1 if bad else 0)
