#!/venv/bin/python
"""CLI of the deterministic-simulation checks.

  run_check.py <ID> --tier quick|thorough [--runs N] [--budget S] [--first K]
  run_check.py --replay FILE
  run_check.py <ID> --digests I,J,K [--tier T]      (used by the determinism self-test)

exit 0: property held on everything explored (KNOWN-FINDING lines allowed)
exit 1: at least one "VIOLATION property=<ID> replay=<path>" line
exit 2: HARNESS-ERROR (never accompanied by a VIOLATION line)
"""
import sys
import os

sys.path.insert(0, os.path.dirname(os.path.abspath(__file__)))
from sim import core  # noqa: E402

core.ensure_pinned_env()

import argparse  # noqa: E402
import faulthandler  # noqa: E402
import importlib  # noqa: E402
import json  # noqa: E402
import subprocess  # noqa: E402
import time  # noqa: E402

from sim import shrink as shrinker  # noqa: E402

VERIF = core.VERIF
# where evidence/ and replays/ are written; the self-tests point this at a scratch directory
OUT = os.environ.get("VERIF_OUT", VERIF)
CHECKS = {"C01": "checks.c01", "C12": "checks.c12", "C14": "checks.c14", "C16": "checks.c16"}
DEFAULT_SEED = {"quick": 20260927, "thorough": 77001}
# (max runs, wall budget for the sweep in seconds)
TIERS = {
    "quick": {"C01": (12000, 28), "C12": (12000, 28), "C14": (8000, 28), "C16": (12000, 25)},
    "thorough": {"C01": (600000, 420), "C12": (600000, 420), "C14": (300000, 360), "C16": (600000, 300)},
}
MAX_SHRINK_CLASSES = 8
DUMP_DIGESTS = None


def load_known():
    path = os.path.join(VERIF, "known_findings.json")
    try:
        with open(path) as f:
            return json.load(f).get("findings", [])
    except FileNotFoundError:
        return []


def known_match(known, prop, sig):
    for e in known:
        if e.get("property") == prop and e.get("status") == "known" and e.get("match", {}).get("signature") == sig:
            return e
    return None


def write_json(path, obj):
    os.makedirs(os.path.dirname(path), exist_ok=True)
    tmp = path + ".tmp"
    with open(tmp, "w") as f:
        json.dump(obj, f, indent=1, allow_nan=True, sort_keys=False)
        f.write("\n")
    os.replace(tmp, path)


def cmd_digests(prop, tier, seed, indices):
    mod = importlib.import_module(CHECKS[prop])
    core.import_prysm()
    out = {}
    for i in indices:
        plan = mod.generate(core.run_rng(seed, prop, i), tier)
        status, res = core.run_in_child(mod.execute, plan, 120.0)
        out[str(i)] = core.digest(res["events"]) if status == "ok" else f"{status}"
    print("DIGESTS " + json.dumps(out, sort_keys=True))
    return 0


def cmd_replay(path):
    with open(path) as f:
        rep = json.load(f)
    prop = rep["property"]
    mod = importlib.import_module(CHECKS[prop])
    core.import_prysm()
    status, res = core.run_in_child(mod.execute, rep["plan"], 300.0)
    if status != "ok":
        print(f"HARNESS-ERROR property={prop} replay child {status}: {str(res)[-400:]}")
        return 2
    want = rep.get("signature")
    vs = res.get("violations", [])
    hit = [v for v in vs if mod.signature(v) == want] if want else vs
    if not hit and vs and (rep.get("shrink") or {}).get("skipped") == "unstable":
        hit = vs            # recorded as failing with varying classes: any violation reproduces it
    if not hit:
        others = sorted({mod.signature(v) for v in vs})
        print(f"NOT-REPRODUCED property={prop} signature={want} (other violations in this replay: {others})")
        return 0
    known = known_match(load_known(), prop, want)
    print(json.dumps(hit[0], sort_keys=True))
    if known:
        print(f"KNOWN-FINDING: property={prop} {known['text']}")
        return 0
    print(f"VIOLATION property={prop} replay={path}")
    return 1


def determinism_selftest(prop, tier, seed, results, n=8):
    """Re-execute the first n runs in one fresh interpreter (another
    PYTHONHASHSEED) and compare event-log digests."""
    mine = {str(r["run"]): r["digest"] for r in results if r["status"] == "ok"}
    idx = sorted(int(k) for k in mine)[:n]
    if not idx:
        return {"compared": 0, "mismatches": []}
    env = dict(os.environ)
    env["VERIF_HASHSEED"] = "12345"
    env["PYTHONHASHSEED"] = "12345"
    env.pop("_VERIF_REEXEC", None)
    env["VERIF_SEED"] = str(seed)
    p = subprocess.run([sys.executable, os.path.abspath(__file__), prop, "--tier", tier,
                        "--digests", ",".join(map(str, idx))],
                       capture_output=True, text=True, env=env, timeout=600)
    line = [ln for ln in p.stdout.splitlines() if ln.startswith("DIGESTS ")]
    if not line:
        return {"compared": 0, "mismatches": [], "error": (p.stdout + p.stderr)[-500:]}
    theirs = json.loads(line[0][8:])
    mism = [i for i in idx if theirs.get(str(i)) != mine[str(i)]]
    return {"compared": len(idx), "mismatches": mism, "other_hashseed": "12345"}


def cmd_check(prop, tier, seed, n_runs, budget, first):
    t_start = time.monotonic()
    faulthandler.dump_traceback_later(budget * 6 + 900, exit=True)
    mod = importlib.import_module(CHECKS[prop])
    print(f"VERIF_SEED={seed} property={prop} tier={tier} max_runs={n_runs} budget_s={budget} "
          f"repo={core.REPO}", flush=True)
    known = load_known()
    results = core.sweep(CHECKS[prop], seed, tier, n_runs, budget, first=first,
                         run_timeout=60.0 if tier == "quick" else 120.0)
    sweep_wall = time.monotonic() - t_start
    n_random = len(results)
    exhaustive_info = None
    if hasattr(mod, "exhaustive_plans"):
        plans = mod.exhaustive_plans(tier)
        t1 = time.monotonic()
        ex_res = core.run_plans(CHECKS[prop], plans, first_index=10 ** 9)
        results = results + ex_res
        exhaustive_info = {"plans": len(plans), "wall_s": round(time.monotonic() - t1, 1),
                           "ok": sum(1 for r in ex_res if r["status"] == "ok"),
                           "description": getattr(mod, "EXHAUSTIVE_NOTE", "")}
        for r in ex_res:
            if r["status"] == "ok":
                for kk, vv in r.get("extra", {}).items():
                    if isinstance(vv, (int, float)):
                        exhaustive_info[kk] = exhaustive_info.get(kk, 0) + vv

    ok = [r for r in results if r["status"] == "ok"]
    bad = [r for r in results if r["status"] != "ok"]
    harness_errors = []
    # a timed-out run is retried once, alone, with a long deadline: only a
    # reproducible timeout/crash is a harness error
    for r in bad:
        if r["status"] in ("timeout", "died") and "plan" in r:
            status, res = core.run_in_child(mod.execute, r["plan"], 600.0)
            if status == "ok":
                r2 = {"run": r["run"], "status": "ok", "digest": core.digest(res["events"]),
                      "nontrivial": bool(res.get("nontrivial")), "steps": len(res["events"]),
                      "faults": res.get("faults", {}), "probes": res.get("probes", {}),
                      "trans": res.get("trans", []), "extra": res.get("extra", {}),
                      "violations": res.get("violations", []), "plan": r["plan"], "wall": 0.0,
                      "retried": True}
                ok.append(r2)
                continue
        harness_errors.append({"run": r["run"], "status": r["status"], "detail": str(r.get("detail"))[-1500:]})

    if DUMP_DIGESTS:
        write_json(DUMP_DIGESTS, {str(r["run"]): r["digest"] for r in ok})
    faults, probes, extra = {}, {}, {}
    trans = set()
    digests_nt = set()
    steps = 0
    for r in ok:
        for k, v in r["faults"].items():
            faults[k] = faults.get(k, 0) + v
        for k, v in r["probes"].items():
            probes[k] = probes.get(k, 0) + v
        for k, v in r.get("extra", {}).items():
            if isinstance(v, (int, float)):
                extra[k] = extra.get(k, 0) + v
        trans.update(r["trans"])
        steps += r["steps"]
        if r["nontrivial"]:
            digests_nt.add(r["digest"])

    # ---- violations: group by signature, shrink one representative per class
    classes = {}
    for r in ok:
        for v in r["violations"]:
            classes.setdefault(mod.signature(v), []).append((r, v))
    vio_lines, known_lines, reports = [], [], []
    shrink_budget = 45.0 if tier == "quick" else 180.0
    n_unknown_classes = 0
    for sig in sorted(classes, key=lambda s: (known_match(known, prop, s) is not None, s)):
        lst = classes[sig]
        lst.sort(key=lambda rv: (len(rv[0]["plan"]["ops"]), rv[0]["run"]))
        r, v = lst[0]
        kn = known_match(known, prop, sig)
        entry = {"signature": sig, "runs": len({x[0]['run'] for x in lst}), "first_run": r["run"],
                 "example": v}
        if kn is None:
            n_unknown_classes += 1
        if kn is None and n_unknown_classes > MAX_SHRINK_CLASSES:
            # still a violation; report unshrunk
            plan_min, vmin, st = r["plan"], v, {"skipped": "class cap"}
        else:
            plan_min, vmin, st = shrinker.shrink(mod, r["plan"], sig, timeout=120.0,
                                                 budget_s=shrink_budget if kn is None else 10.0)
            if plan_min is None:
                # The recorded plan did not fail the same way in a fresh child.  If it still fails - with another
                # class of violation - the code under test is not a function of the plan there (e.g. it reads
                # uninitialised memory): that is a violation all the same, reported unshrunk.  Only a plan that
                # fails in no re-execution at all is the harness's problem.
                other = None
                for _ in range(2):
                    st3, res3 = core.run_in_child(mod.execute, r["plan"], 300.0)
                    if st3 == "ok" and res3.get("violations"):
                        other = res3["violations"][0]
                        break
                if other is None:
                    harness_errors.append({"run": r["run"], "status": "not-reproduced",
                                           "detail": f"violation {sig} did not reproduce when the recorded plan "
                                                     f"was re-executed in a fresh child"})
                    continue
                plan_min, vmin = r["plan"], v
                st = {"skipped": "unstable", "note": "the same plan failed with different violation classes in different "
                      "executions (" + sig + " / " + mod.signature(other) + "): the code under test is not deterministic here"}
        entry["shrink"] = st
        entry["ops_min"] = len(plan_min["ops"])
        if kn is not None:
            known_lines.append(f"KNOWN-FINDING: property={prop} {kn['text']} [{kn.get('id', sig)}; "
                               f"{entry['runs']} run(s) this sweep]")
            entry["known"] = kn.get("id", sig)
            reports.append(entry)
            continue
        rep_plan = mod.finalize_replay(plan_min) if hasattr(mod, "finalize_replay") else plan_min
        # the literal form must fail the same way, else keep the descriptor form
        st2, res2 = core.run_in_child(mod.execute, rep_plan, 300.0)
        if st2 != "ok" or not any(mod.signature(x) == sig for x in res2.get("violations", [])):
            rep_plan = plan_min
        tag = "".join(c if c.isalnum() else "_" for c in sig)[:60]
        path = os.path.join(OUT, "replays", prop, f"{seed}-{r['run']}-{tag}.json")
        write_json(path, {"property": prop, "seed": seed, "run": r["run"], "tier": tier,
                          "signature": sig, "violation": vmin, "plan": rep_plan,
                          "repo": core.repo_state(), "shrink": st,
                          "how_to_replay": f"/venv/bin/python /verif/run_check.py --replay {path}"})
        entry["replay"] = path
        reports.append(entry)
        vio_lines.append(f"VIOLATION property={prop} replay={path}")

    # ---- determinism mini self-test
    det = determinism_selftest(prop, tier, seed, ok)
    if det.get("mismatches") or det.get("compared", 0) == 0:
        harness_errors.append({"run": -1, "status": "nondeterministic", "detail": json.dumps(det)})

    wall = time.monotonic() - t_start
    samples = []
    for r in ok:
        if "plan" in r and len(samples) < 3:
            samples.append({"run": r["run"], "config": r["plan"].get("config"),
                            "ops": r["plan"]["ops"][:12], "n_ops": len(r["plan"]["ops"])})
    evaluations = len(ok)
    coverage = {
        "evaluations": evaluations,
        "distinct_nontrivial": len(digests_nt),
        "rule": mod.RULE,
        "samples": samples,
        "exhaustive": False,
        "runs_per_hour": int(evaluations / max(sweep_wall, 1e-6) * 3600),
        "seeds": {"VERIF_SEED": seed, "run_indices": [first, first + n_random - 1] if n_random else []},
        "steps_simulated": steps,
        "fault_kinds_fired": dict(sorted(faults.items())),
        "probes": dict(sorted(probes.items())),
        "probes_stuck_at_zero": [p for p in getattr(mod, "EXPECTED_PROBES", []) if not probes.get(p)],
        "distinct_transitions": len(trans),
        "components": mod.COMPONENTS,
        "violation_classes": reports,
        "known_findings_seen": [e.get("known") for e in reports if e.get("known")],
        "harness_errors": harness_errors[:20],
        "determinism_selftest": det,
        "repo": core.repo_state(),
        "workers": int(os.environ.get("VERIF_WORKERS", "0")) or min(16, os.cpu_count() or 1),
    }
    coverage.update({k: v for k, v in extra.items()})
    if exhaustive_info:
        coverage["exhaustive_family"] = exhaustive_info
    if hasattr(mod, "extra_coverage"):
        coverage.update(mod.extra_coverage(ok))
    evidence = {
        "property_id": prop, "tier": tier, "seed": seed, "level": "exploration",
        "coverage": coverage,
        "assumptions": getattr(mod, "ASSUMPTIONS", []),
        "wall_s": round(wall, 2),
        "violations": len(vio_lines),
    }
    write_json(os.path.join(OUT, "evidence", f"{prop}.json"), evidence)

    print(f"runs={evaluations} distinct_nontrivial={len(digests_nt)} steps={steps} "
          f"transitions={len(trans)} wall={wall:.1f}s runs/h={coverage['runs_per_hour']}")
    print("faults fired: " + json.dumps(coverage["fault_kinds_fired"]))
    for ln in known_lines:
        print(ln)
    if harness_errors:
        for h in harness_errors[:5]:
            print(f"HARNESS-ERROR property={prop} run={h['run']} {h['status']}: {h['detail'][-600:]}")
        return 2
    for ln in vio_lines:
        print(ln)
    if vio_lines:
        return 1
    print(f"OK property={prop} held on {evaluations} simulated runs")
    return 0


def main():
    ap = argparse.ArgumentParser()
    ap.add_argument("prop", nargs="?")
    ap.add_argument("--tier", default=os.environ.get("VERIF_TIER", "quick"), choices=["quick", "thorough"])
    ap.add_argument("--runs", type=int)
    ap.add_argument("--budget", type=float)
    ap.add_argument("--first", type=int, default=0)
    ap.add_argument("--replay")
    ap.add_argument("--digests")
    ap.add_argument("--dump-digests", help="write {run: event-log digest} of the sweep to this file")
    a = ap.parse_args()
    if a.replay:
        return cmd_replay(a.replay)
    if a.prop not in CHECKS:
        print(f"unknown property {a.prop}; have {sorted(CHECKS)}")
        return 2
    seed = int(os.environ.get("VERIF_SEED") or DEFAULT_SEED[a.tier])
    if a.digests:
        return cmd_digests(a.prop, a.tier, seed, [int(x) for x in a.digests.split(",")])
    n_runs, budget = TIERS[a.tier][a.prop]
    if a.runs:
        n_runs = a.runs
    if a.budget or os.environ.get("VERIF_BUDGET_S"):
        budget = a.budget or float(os.environ["VERIF_BUDGET_S"])
    global DUMP_DIGESTS
    DUMP_DIGESTS = a.dump_digests
    return cmd_check(a.prop, a.tier, seed, n_runs, budget, a.first)


if __name__ == "__main__":
    try:
        rc = main()
    except SystemExit:
        raise
    except BaseException:
        import traceback
        traceback.print_exc()
        print("HARNESS-ERROR uncaught exception in run_check")
        rc = 2
    sys.exit(rc)
