"""C14 — write, crash, truncate, read.

The real prysm writers and readers (Zygo .dat, Code V grid INT, the
Interferogram save/load pair) run against a simulated disk and a simulated
clock.  The simulator owns every byte that reaches 'disk' (ENOSPC at byte k,
EIO on close, crash at byte k with any prefix surviving, post-hoc truncation at
any offset, EIO on read, overwrite histories) and the header timestamp clock.
Oracle: a model map per path (the last write that touched it) with the
complete-file round-trip contract and the cut-file contract.
"""
import copy
import math
import re
import sys

from sim import core
from sim.faults import SimDisk, SimClock, SimCrash, BackendProxy, savetxt_via, install_sim_os

PROP = "C14"
FORMATS = ("zygo_path", "zygo_file", "ifg", "codev")
HDR = 834


# ---------------------------------------------------------------------------
# generation

def _rdim(rng, hi):
    c = rng.random()
    if c < 0.12:
        return 1
    if c < 0.3:
        return rng.choice([2, 3])
    return rng.randint(2, hi)


def _rmap(rng, hi):
    m = _rdim(rng, hi)
    n = m if rng.random() < 0.3 else _rdim(rng, hi)
    if rng.random() < (0.004 if hi <= 8 else 0.02):
        # a realistically large map: header fields above 255 / 32767 / 65535, multi-line text records
        m, n = rng.choice([(130, 140), (260, 70), (200, 200), (37, 300), (1, 70000 // 4), (1100, 1000), (600, 2048)])
    return {"shape": [m, n], "seed": rng.getrandbits(32),
            "vals": rng.choice(["mixed", "mixed", "pos", "neg", "const", "zero", "tiny", "huge", "pos_big", "neg_big", "micro"]),
            "nan": rng.choice(["none", "none", "scatter", "rows", "all", "edge"]),
            "mag": 10 ** rng.uniform(-2, 4),
            "dtype": rng.choice(["f64", "f64", "f64", "f64", "f64", "f32", "f32", "i16", "i64"]),
            "layout": rng.choice(["c", "c", "c", "c", "c", "fortran", "transposed"])}


def _rwhere(rng):
    return {"region": rng.choice(["uniform", "header", "hdr_end", "sample_boundary", "mid_sample",
                                  "last_sample", "last_token", "tail_ws", "data_uniform"]),
            "u": rng.random(), "delta": rng.choice([0, 0, -1, 1])}


def generate(rng, tier):
    hi = 8 if tier == "quick" else rng.choice([6, 8, 12, 12, 26])
    cfg = {"faults": rng.random() < 0.7, "t0": rng.uniform(0, 4.29e9), "precision0": 64 if rng.random() < 0.9 else 32,
           # lean: the harness makes no scaffolding call of the writer before a fault-free write (its complete
           # image is then what that write left on the disk), so the library sees the caller's calls only
           "lean_writes": rng.random() < 0.5}
    fmts = [f for f in FORMATS if rng.random() < 0.6] or [rng.choice(FORMATS)]
    npaths = rng.randint(1, 3)
    paths = [f"/sim/p{i}" for i in range(npaths)]
    ops = []
    nsteps = rng.randint(2, 8 if tier == "quick" else 12)
    written = []
    for _ in range(nsteps):
        c = rng.random()
        if not written or c < 0.45:
            p = rng.choice(paths)
            fmt = rng.choice(fmts)
            op = {"op": "write", "fmt": fmt, "path": p, "map": _rmap(rng, hi),
                  "dx": 10 ** rng.uniform(-3, 2), "wvl": rng.choice([0.6328, 0.6328, rng.uniform(0.3, 11.0), rng.uniform(0.19, 0.63),
                                     10 ** rng.uniform(-2.3, 2.5)])}        # EUV ... far infrared
            earlier = [o["wvl"] for o in ops if o["op"] == "write"]
            if earlier and rng.random() < 0.15:
                # a wavelength a few parts in 1e5 (or 1e6) away from one used by an earlier write of this run: a
                # tunable source, or the same line quoted to another digit
                op["wvl"] = rng.choice(earlier) * (1 + rng.choice([2.5e-5, -2.5e-5, 1.5e-6, 6e-5]))
                if rng.random() < 0.6:
                    op["map"]["vals"] = rng.choice(["pos_big", "neg_big", "mixed"])
                    op["map"]["mag"] = max(op["map"]["mag"], 3000.0)
            if fmt == "codev" and rng.random() < 0.4:
                op["cv"] = {"typ": rng.choice(["SUR", "WFR", "wfr"]), "nnb": rng.random() < 0.5}
            if rng.random() < 0.15:
                op["pathobj"] = True          # the file named by a pathlib.Path instead of a string
            if fmt != "codev" and rng.random() < 0.12:
                op["scalars"] = "0d"          # spacing and wavelength kept as 0-d numpy arrays by the caller
            if fmt == "ifg" and rng.random() < 0.05:
                op["dx"] = 0.0          # the library's "no lateral calibration" marker
            if fmt == "ifg" and rng.random() < 0.25:
                op["intensity"] = rng.choice(["f64", "u16", "f32"])      # the object carries a camera frame
            if fmt == "ifg" and rng.random() < 0.3:
                # the Interferogram has a life before it is saved: steps that only touch the calibration
                op["prep"] = [rng.choice([["strip_latcal"], ["latcal", round(10 ** rng.uniform(-2, 1), 4)],
                                          ["strip_latcal"], ["recenter"], ["read_r"], ["crop"], ["pad"], ["mask"],
                                          ["remove_piston"]])
                              for _ in range(rng.randint(1, 3))]
            prev = [j for j, o in enumerate(ops) if o["op"] == "write" and "reuse" not in o]
            if prev and rng.random() < 0.3:
                # the caller saves the very same array / Interferogram object once more
                j = rng.choice(prev)
                op["reuse"] = j
                op["map"], op["dx"], op["wvl"] = ops[j]["map"], ops[j]["dx"], ops[j]["wvl"]
                op.pop("prep", None)
                if rng.random() < 0.5:
                    # ... after working on it a little more
                    op["restep"] = [rng.choice([["mask"], ["spike_clip"], ["fill"], ["edit"], ["dropout_percentage"],
                                                ["swap"], ["flip"], ["fill"]])
                                    for _ in range(rng.randint(1, 2))]
                    if any(st[0] in ("swap", "flip", "fill") for st in op["restep"]) and rng.random() < 0.7:
                        # edits that keep the sample count, the sum and the length of the text: the same file is
                        # read, rewritten in place with the edited map, and read again
                        op["path"] = p = ops[j]["path"]
                        ops.append({"op": "read", "path": p, "via": rng.choice(["io", "io", "ifg"])})
                if (op["fmt"] == "codev") != (ops[j]["fmt"] == "codev"):
                    op["fmt"] = ops[j]["fmt"]          # value ranges are chosen per format family
            if cfg["faults"] and rng.random() < 0.35:
                kind = rng.choice(["enospc", "crash", "crash", "eio_close"])
                op["fault"] = {"kind": kind, "where": _rwhere(rng), "survive_u": rng.random()}
            ops.append(op)
            if p not in written:
                written.append(p)
            if op["map"]["shape"][0] * op["map"]["shape"][1] > 120000:
                op.pop("fault", None)
                ops.append({"op": "read", "path": p, "via": rng.choice(["io", "ifg"])})     # a huge map is read back at once
        elif c < 0.5 and len(paths) > 0 and rng.random() < 0.5:
            # load an Interferogram from one file, change its calibration, save it somewhere, read that
            ops.append({"op": "resave", "src": rng.choice(written), "path": rng.choice(paths) + ".re",
                        "prep": [rng.choice([["latcal", round(10 ** rng.uniform(-2, 1), 4)], ["strip_latcal"], ["none"],
                                             ["rebuild"], ["rebuild"]])
                                 for _ in range(rng.choice([1, 1, 2]))]})
            ops.append({"op": "read", "path": ops[-1]["path"], "via": rng.choice(["io", "ifg"])})
        elif c < 0.8:
            op = {"op": "read", "path": rng.choice(written), "via": rng.choice(["io", "io", "ifg"])}
            if rng.random() < 0.15:
                op["pathobj"] = True
            if cfg["faults"] and rng.random() < 0.06:
                op["eio"] = True
            ops.append(op)
        elif c < 0.93 and cfg["faults"]:
            ops.append({"op": "cut", "path": rng.choice(written), "where": _rwhere(rng)})
            ops.append({"op": "read", "path": ops[-1]["path"], "via": rng.choice(["io", "ifg"])})
        elif c < 0.97 and cfg["faults"]:
            ops.append({"op": "cutscan", "path": rng.choice(written), "via": rng.choice(["io", "io", "ifg"]),
                        "header_stride": rng.choice([97, 53, 211])})
        elif rng.random() < 0.5:
            ops.append({"op": "precision", "bits": rng.choice([32, 64])})
        else:
            ops.append({"op": "clock", "dt": rng.choice([1.0, 3600.0, -86400.0, 1e7, rng.uniform(-1e9, 1e9)])})
    return {"prop": PROP, "tier": tier, "config": cfg, "ops": ops}


def exhaustive_plans(tier="thorough"):
    """The fixed small-map family whose every cut offset is swept (one plan
    per map, writer/reader pair and precision)."""
    plans = []
    if tier == "quick":
        shapes = [[1, 1], [1, 3], [2, 2], [3, 4]]
        pats = (("mixed", "none"), ("neg", "scatter"))
        precs = (64,)
    else:
        shapes = [[1, 1], [1, 2], [1, 3], [3, 1], [2, 2], [2, 3], [3, 4], [4, 3], [2, 5], [5, 5], [6, 7], [7, 2]]
        pats = (("mixed", "none"), ("neg", "scatter"), ("pos_big", "rows"), ("const", "edge"), ("zero", "none"),
                ("tiny", "scatter"), ("huge", "none"), ("neg_big", "all"))
        precs = (64, 32)
    k = 0
    for shp in shapes:
        for vals, nan in pats:
            for fmt, via in (("zygo_path", "io"), ("zygo_file", "ifg"), ("ifg", "ifg"), ("ifg", "io"), ("codev", "io")):
                for prec in precs:
                    if tier == "quick" and fmt == "zygo_file":
                        continue
                    k += 1
                    plans.append({"prop": PROP, "tier": tier, "exhaustive": True,
                                  "config": {"faults": True, "t0": 1.7e9, "precision0": prec},
                                  "ops": [{"op": "write", "fmt": fmt, "path": "/sim/x",
                                           "map": {"shape": shp, "seed": 1000 + k, "vals": vals, "nan": nan, "mag": 250.0},
                                           "dx": 0.25, "wvl": 0.6328 if k % 3 else 1.55},
                                          {"op": "cutscan", "path": "/sim/x", "via": via, "header_stride": 1}]})
    # every sample count from 1 up to a few hundred (quick) / a few thousand (thorough) through the text
    # format, one row each: whatever the writer's records-per-line and the reader's reassembly do at a
    # boundary (a remainder of zero, one value alone on the last line) is met whatever the line width is
    top = 660 if tier == "quick" else 2400
    per = 44 if tier == "quick" else 60
    for lo in range(1, top + 1, per):
        ops = []
        for N in range(lo, min(lo + per, top + 1)):
            shp = [1, N] if N % 5 else ([5, N // 5] if N % 2 else [N // 5, 5])
            ops.append({"op": "write", "fmt": "codev", "path": "/sim/s", "dx": 0.25, "wvl": 0.6328,
                        "map": {"shape": shp, "seed": 5000 + N, "vals": "mixed" if N % 3 else "neg",
                                "nan": "none" if N % 4 else "scatter", "mag": 250.0}})
            ops.append({"op": "read", "path": "/sim/s", "via": "io"})
        plans.append({"prop": PROP, "tier": tier, "exhaustive": True,
                      "config": {"faults": False, "t0": 1.7e9, "precision0": 64}, "ops": ops})
    return plans


# ---------------------------------------------------------------------------
# world

def _rearrange(np, a, how, g):
    """In-place edits that keep the multiset of samples (hence their sum, their count of NaNs and the
    length of any text made of them): exchange two samples, or turn the map by 180 degrees."""
    if a.size < 2:
        return
    if how == "flip":
        a[...] = a[::-1, ::-1].copy()
    else:
        f = a.reshape(-1) if a.flags.c_contiguous else None
        i0, i1 = (int(x) for x in g.choice(a.size, 2, replace=False))
        p0, p1 = np.unravel_index(i0, a.shape), np.unravel_index(i1, a.shape)
        a[p0], a[p1] = a[p1].copy(), a[p0].copy()


def build_map(np, spec, wvl, fmt):
    m, n = spec["shape"]
    g = np.random.Generator(np.random.PCG64(spec["seed"]))
    step = wvl * 1e3 / 32768.0          # one Zygo quantisation step, nm
    zmax = 2147483000 * step * 0.9      # stay inside the int32 format range
    vals = spec["vals"]
    mag = spec["mag"]
    u = g.random((m, n))
    if vals == "mixed":
        z = (u - 0.5) * 2 * mag
    elif vals == "pos":
        z = (0.05 + u) * mag
    elif vals == "neg":
        z = -(0.05 + u) * mag
    elif vals == "const":
        z = np.full((m, n), float((g.random() - 0.5) * 2 * mag))
    elif vals == "zero":
        z = np.zeros((m, n))
    elif vals == "tiny":
        z = (u - 0.5) * step * 0.9
    elif vals == "micro":
        z = (u - 0.5) * 2e-10               # a value range of 1e-10 nm: the text format scales to the map's own extreme
    elif vals == "huge":
        z = (u - 0.5) * 2 * (zmax if fmt != "codev" else 1e7)
    elif vals == "pos_big":
        z = (1.0 + u) * 3000.0
    elif vals == "neg_big":
        z = -(1.0 + u) * 3000.0
    else:
        raise ValueError(vals)
    nk = spec["nan"]
    z = z.astype(np.float64)
    if nk == "scatter":
        z[g.random((m, n)) < 0.25] = np.nan
    elif nk == "rows":
        z[int(g.integers(0, m)), :] = np.nan
    elif nk == "edge":
        z[0, :] = np.nan
        z[:, -1] = np.nan
    elif nk == "all":
        z[:] = np.nan
    if spec.get("dtype") == "f32":
        z = z.astype(np.float32)
    elif spec.get("dtype") in ("i16", "i64") and not bool(np.any(np.isnan(z))) and vals not in ("tiny", "huge", "micro"):
        # heights given as integers (nm): a legal array type for a map without dropouts
        z = np.clip(np.rint(z), -30000, 30000).astype(np.int16 if spec["dtype"] == "i16" else np.int64)
    lay = spec.get("layout", "c")
    if lay == "fortran":
        z = np.asfortranarray(z)
    elif lay == "transposed":
        z = np.ascontiguousarray(z.T).T       # same samples, a transposed view of other memory
    return z


class _World:
    pass


def _setup():
    core.import_prysm()
    import numpy as np
    import prysm.io as pio
    from prysm import mathops
    w = _World()
    w.np = np
    w.pio = pio
    w.disk = SimDisk()
    mathops.np._srcmodule = BackendProxy(np, savetxt=savetxt_via(w.disk, np))
    return w


def _dx_after(dx, prep):
    """Spacing the Interferogram carries after its calibration-only steps (documented effects)."""
    for step in (prep or []):
        if step[0] == "strip_latcal":
            dx = 1.0
        elif step[0] == "latcal":
            dx = float(step[1])
    return dx


def _intensity(np, z, kind):
    if not kind:
        return None
    a = (np.arange(z.size, dtype=np.float64).reshape(z.shape) % 251) * 3.0 + 7.0
    return a.astype({"f64": np.float64, "f32": np.float32, "u16": np.uint16}[kind])


def _pform(path, as_obj):
    if as_obj:
        import pathlib
        return pathlib.PurePosixPath(path) if False else pathlib.Path(path)
    return path


def _write(w, fmt, path, z, dx, wvl, cv=None, holder=None, prep=None, inten=None, pathobj=False):
    path = _pform(path, pathobj)
    """Call the real writer with the caller's own array object (no defensive copy:
    that is what user code does).  `holder` keeps the caller's Interferogram."""
    from prysm.interferogram import Interferogram
    pio = w.pio
    if fmt == "zygo_path":
        pio.write_zygo_dat(path, z, dx, wavelength=wvl)
    elif fmt == "zygo_file":
        f = w.disk.open(path, "wb")
        pio.write_zygo_dat(f, z, dx, wavelength=wvl)
    elif fmt == "ifg":
        if holder is not None and holder.get("ifg") is not None:
            holder["ifg"].save_zygo_dat(path)
        else:
            i0 = Interferogram(z, dx=dx, wavelength=wvl, intensity=_intensity(w.np, z, inten))
            for step in (prep or []):
                if step[0] == "strip_latcal":
                    i0.strip_latcal()
                elif step[0] == "latcal":
                    i0.latcal(step[1])
                elif step[0] == "recenter":
                    i0.recenter()
                elif step[0] == "read_r":
                    i0.r
            i0.save_zygo_dat(path)
    elif fmt == "codev":
        if cv:
            pio.write_codev_gridint(z, path, typ=cv["typ"], nnb=cv["nnb"])
        else:
            pio.write_codev_gridint(z, path)
    else:
        raise ValueError(fmt)


def _layout(w, fmt, shape, dx, wvl):
    """Discover, from the real writer alone, which array position each stored
    sample belongs to and which bytes hold it: write a probe map of unique
    values to a scratch path and decode the file in the harness."""
    np = w.np
    key = (fmt if fmt == "codev" else "zygo", tuple(shape), wvl)
    if key in w.layouts:
        return w.layouts[key]
    m, n = shape
    probe = (np.arange(m * n, dtype=np.float64).reshape(m, n) + 1.0)
    mid = (m * n + 1) // 2      # mixed-sign probe for the int16 text format
    scratch = "/sim/.probe"
    if fmt == "codev":
        w.pio.write_codev_gridint((probe - mid - 0.25) * 1000.0, scratch)
        raw = w.disk.files[scratch]
        spans = _codev_tokens(raw)
        ssz = _codev_ssz(raw)
        pos = []
        for (a, b) in spans:
            v = int(raw[a:b]) / ssz          # um -> probe index
            idx = int(round(v + mid + 0.25)) - 1
            pos.append((idx // n, idx % n))
        lay = {"pos": pos}
    else:
        step = wvl * 1e3 / 32768.0
        w.pio.write_zygo_dat(scratch, probe * step * 16, dx, wavelength=wvl)
        raw = w.disk.files[scratch]
        vals = np.frombuffer(raw[len(raw) - 4 * m * n:], dtype=">i4")
        pos = []
        for v in vals:
            idx = int(round(int(v) / 16.0)) - 1
            pos.append((idx // n, idx % n))
        lay = {"pos": pos}
    ok = sorted(pos) == [(i, j) for i in range(m) for j in range(n)]
    lay["ok"] = ok
    del w.disk.files[scratch]
    w.layouts[key] = lay
    return lay


_TOK = re.compile(rb"-?\d+")


def _codev_data_start(raw):
    a = raw.find(b"\n")
    b = raw.find(b"\n", a + 1)
    return b + 1


def _codev_tokens(raw):
    s = _codev_data_start(raw)
    return [(s + mt.start(), s + mt.end()) for mt in _TOK.finditer(raw[s:])]


def _codev_ssz(raw):
    hdr = raw[:_codev_data_start(raw)].decode("utf-8", "replace")
    mt = re.search(r"SSZ\s+(\S+)", hdr)
    return float(mt.group(1))


def _sample_spans(w, entry):
    """Byte span of every stored sample of the complete file of a model entry."""
    raw = entry["full"]
    if entry.get("huge"):
        # only the first and the last sample matter for a map that is never cut
        n = int(entry["map"].size)
        if entry["fmt"] == "codev":
            return [(len(raw) - 2, len(raw) - 1)]
        return [(len(raw) - 4 * n, len(raw) - 4 * n + 4), (len(raw) - 4, len(raw))]
    if entry["fmt"] == "codev":
        return _codev_tokens(raw)
    # the phase block is the last 4*m*n bytes of the complete file (a writer may put an
    # intensity block between the 834-byte header and the phase data)
    n = int(entry["map"].size)
    p0 = len(raw) - 4 * n
    if p0 < HDR:
        n = (len(raw) - HDR) // 4
        p0 = HDR
    return [(p0 + 4 * i, p0 + 4 * i + 4) for i in range(n)]


def _resolve(where, entry, spans):
    """Turn a structural cut descriptor into a byte offset in [0, L]."""
    L = len(entry["full"])
    u = where["u"]
    reg = where["region"]
    d = where.get("delta", 0)
    data0 = spans[0][0] if spans else L
    if "abs" in where:
        k = where["abs"]
    elif reg == "uniform":
        k = int(u * (L + 1))
    elif reg == "header":
        k = int(u * data0)
    elif reg == "hdr_end":
        k = data0 + d
    elif reg == "sample_boundary" and spans:
        k = spans[int(u * len(spans))][1] + d
    elif reg == "mid_sample" and spans:
        a, b = spans[int(u * len(spans))]
        k = a + max(1, int((b - a) * 0.5)) if b - a > 1 else a
    elif reg == "last_sample" and spans:
        a, b = spans[-1]
        k = a + int(u * (b - a + 1))
    elif reg == "last_token" and spans:
        a, b = spans[-1]
        k = a + 1 + int(u * max(1, b - a - 1)) if b - a > 1 else b
    elif reg == "tail_ws":
        k = L - 1 + min(d, 0)
    elif reg == "data_uniform":
        k = data0 + int(u * (L - data0 + 1))
    else:
        k = int(u * (L + 1))
    return min(max(k, 0), L)


def _region(entry, spans, k):
    """Name of the structural region a cut offset falls in."""
    L = len(entry["full"])
    if k >= L:
        return "none"
    if not spans:
        return "header" if k < L else "none"
    if k < spans[0][0]:
        if entry["fmt"] == "codev":
            t = entry["full"].find(b"\n")
            return "title" if k <= t else "header"
        return "header"
    if k >= spans[-1][1]:
        return "trailing-ws"
    if entry["fmt"] == "codev":
        # "last-token": every token but the last is intact and the last one is
        # partly or wholly missing (text formats cannot tell a shortened final
        # number from a complete one)
        prev_end = spans[-2][1] if len(spans) > 1 else _codev_data_start(entry["full"])
        if prev_end < k < spans[-1][1]:
            return "last-token"
    else:
        a, b = spans[-1]
        if a < k < b:
            return "last-sample"
    for (a, b) in spans:
        if a < k < b:
            return "mid-token" if entry["fmt"] == "codev" else "mid-sample"
        if k <= a:
            break
    return "boundary"


# ---------------------------------------------------------------------------
# reading + judging

def _read(w, entry, via, eio=False, pathobj=False):
    """Returns (outcome, array|None, dx, wvl, warned, exc)."""
    import warnings
    from prysm.interferogram import Interferogram
    np = w.np
    path = entry["path"]
    if eio:
        w.disk.arm(path, {"kind": "eio_read"})
    arr = dx = wvl = None
    # the process-wide warning filters are those of a user who asked to see every warning
    # (set once at the start of the run) plus whatever the library did to them since: a
    # library that silences warnings globally also silences its own truncation warning
    with warnings.catch_warnings(record=True) as rec:
        try:
            path = _pform(path, pathobj)
            if entry["fmt"] == "codev":
                arr, meta = w.pio.read_codev_gridint(path)
            elif via == "ifg":
                i = Interferogram.from_zygo_dat(path)
                arr, dx, wvl = i.data, i.dx, i.wavelength
            else:
                d = w.pio.read_zygo_dat(path)
                arr = d["phase"]
                dx = d["meta"]["lateral_resolution"] * 1e3
                wvl = d["meta"]["wavelength"] * 1e6
        except Exception as e:
            return "raised", None, None, None, False, e
    warned = any(issubclass(r.category, Warning) and not issubclass(r.category, (DeprecationWarning, PendingDeprecationWarning))
                 for r in rec)
    return "ok", np.asarray(arr), dx, wvl, warned, None


def _step(entry):
    z = entry["map"]
    if entry["fmt"] == "codev":
        import numpy as np
        zz = z[~np.isnan(z)]
        amax = float(np.max(np.abs(zz))) if zz.size else 0.0
        return amax / 32767.0 * (1 + 1e-9) + amax * 1e-12
    # the step of the FILE: the header holds the wavelength as a float32 and that is the number the counts are
    # multiples of (up to 6e-8 relative away from the double the caller passed); the larger of the two
    import numpy as np
    w64 = entry["wvl"] * 1e3 / 32768.0
    w32 = float(np.float32(entry["wvl"] * 1e-6)) * 1e9 / 32768.0
    return max(w64, w32)


def _judge(w, entry, spans, k, res, step_i, viol, bump, probes):
    """Apply the complete-file or cut-file contract to one read result."""
    np = w.np
    outcome, arr, dx, wvl, warned, exc = res
    z = entry["map"]
    L = len(entry["full"])
    fmtc = "codev" if entry["fmt"] == "codev" else "zygo"
    # which stored samples are completely inside the first k bytes?
    complete = [b <= k for (a, b) in spans]
    # complete <=> every stored sample is intact (a cut that only removed
    # trailing white space of a text file leaves the data complete)
    all_complete = bool(spans) and k >= spans[-1][1]
    lay = entry["layout"]
    region = _region(entry, spans, k)
    step = _step(entry)
    # one quantisation step, plus the rounding of the array that comes back when the reader works in single
    # precision (the configured precision); nothing else - the header's float32 wavelength is no excuse, a
    # writer can scale with the number it stores
    lowp_out = arr is not None and getattr(arr, "dtype", None) == np.float32
    tolv = step * (1 + 1e-9) + np.abs(np.nan_to_num(z)) * (2.0 ** -22 if lowp_out else 1e-12)
    # (a float32 map is a map like any other: its samples are exact numbers, and a writer that works in the
    # map's own precision instead of widening it first gets no allowance)

    # A text file cut inside its trailing white space has every number intact but IS shorter than what was
    # written; a reader that insists on the terminator (the only way to tell a shortened last number from a
    # complete one) and therefore rejects it, or warns and returns what it trusts, is as right as one that
    # returns the whole map.  Quiet results are held to the complete-file contract.
    short_text = all_complete and k < L and fmtc == "codev" and (outcome != "ok" or warned)
    if all_complete and not short_text:
        # ---- complete-file contract (a cut that only removed trailing white space is complete too)
        if outcome != "ok":
            viol("complete-raised", step_i, fmtc, region, exc=type(exc).__name__, msg=str(exc)[:160])
            return
        if tuple(arr.shape) != tuple(z.shape):
            viol("complete-shape", step_i, fmtc, region, got=list(arr.shape), want=list(z.shape))
            return
        if not bool(np.all(np.isnan(arr) == np.isnan(z))):
            cls = _orient_class(np, arr, z, tolv)
            viol("complete-nan-places", step_i, fmtc, region, orient=cls)
            return
        fin = ~np.isnan(z)
        err = np.abs(arr - z)
        if not bool(np.all(err[fin] <= tolv[fin])):
            cls = _orient_class(np, arr, z, tolv)
            viol("complete-values", step_i, fmtc, region, orient=cls,
                 worst=float(np.max(err[fin] / np.maximum(step, 1e-300))) if step > 0 else float(np.max(err[fin])))
            return
        if fmtc == "zygo":
            if not abs(dx - entry["dx"]) <= 3e-7 * abs(entry["dx"]):
                viol("complete-dx", step_i, fmtc, region, got=float(dx), want=entry["dx"])
            if not abs(wvl - entry["wvl"]) <= 3e-7 * abs(entry["wvl"]):
                viol("complete-wavelength", step_i, fmtc, region, got=float(wvl), want=entry["wvl"])
        bump(probes, "complete_roundtrip_ok")
        return

    # ---- cut-file contract
    bump(probes, f"cut_{fmtc}_{region}")
    if outcome != "ok":
        bump(probes, "cut_rejected_with_exception")
        return                                  # (a) any exception
    if tuple(arr.shape) != tuple(z.shape):
        # not a full-size array: cannot be mistaken for the map
        bump(probes, "cut_returned_other_shape")
        return
    if not warned:
        viol("cut-silent-full", step_i, fmtc, region, k=k, L=L)
        return
    if not lay["ok"]:
        return
    lost = np.zeros(z.shape, dtype=bool)
    for i, c in enumerate(complete):
        if not c and i < len(lay["pos"]):
            lost[lay["pos"][i]] = True
    if bool(np.any(lost & ~np.isnan(arr))):
        viol("cut-finite-where-lost", step_i, fmtc, region, k=k, L=L, n=int(np.sum(lost & ~np.isnan(arr))))
        return
    keep = ~np.isnan(arr)
    bad = keep & (np.isnan(z) | (np.abs(arr - np.nan_to_num(z)) > tolv))
    if bool(np.any(bad)):
        viol("cut-wrong-survivor", step_i, fmtc, region, k=k, L=L, n=int(np.sum(bad)))
        return
    bump(probes, "cut_marked_invalid_with_warning")


def _orient_class(np, arr, z, tolv):
    """Is the mismatch explained by a flip / mirror / transpose?"""
    def same(a):
        if a.shape != z.shape:
            return False
        if not bool(np.all(np.isnan(a) == np.isnan(z))):
            return False
        f = ~np.isnan(z)
        return bool(np.all(np.abs(a - z)[f] <= tolv[f]))
    for name, a in (("fliplr", arr[:, ::-1]), ("flipud", arr[::-1, :]), ("rot180", arr[::-1, ::-1]),
                    ("transpose", arr.T)):
        if same(a):
            return name
    return "other"


# ---------------------------------------------------------------------------
# execution

def execute(plan):
    w = _setup()
    np = w.np
    from prysm.conf import config
    import warnings
    np.seterr(all="ignore")
    cfg = plan["config"]
    config.precision = cfg.get("precision0", 64)
    warnings.resetwarnings()
    warnings.simplefilter("always")
    clock = SimClock(cfg["t0"])
    # seams: every open()/Path/os call on /sim/... in this (forked) process goes to the
    # SimDisk, time.time() and prysm.io's datetime read the SimClock
    install_sim_os(w.disk, clock)
    for modname in ("prysm.io", "prysm.interferogram"):
        modobj = sys.modules.get(modname)
        if modobj is not None and hasattr(modobj, "datetime"):
            modobj.datetime = clock
    w.layouts = {}
    model = {}
    kept = []
    objs = {}
    events, violations = [], []
    probes = {}
    trans = set()
    fired_sig = set()
    extra = {"cut_offsets_read": 0}

    def bump(d, k, n=1):
        d[k] = d.get(k, 0) + n

    cur = {"i": 0}

    def viol(oracle, step_i, fmtc, region, **kw):
        sig = (oracle, fmtc, region if oracle.startswith("cut") else "", kw.get("orient", ""))
        if sig in fired_sig:
            return
        fired_sig.add(sig)
        v = {"oracle": oracle, "step": step_i, "fmt": fmtc, "region": region}
        v.update(kw)
        violations.append(v)

    nontrivial = False
    for i, op in enumerate(plan["ops"]):
        k = op["op"]
        ev = {"i": i, "op": k}
        if k == "clock":
            clock.advance(op["dt"])
            ev["t"] = math.floor(clock.now_s)
        elif k == "precision":
            config.precision = op["bits"]
            w.disk.fired["precision_flip"] = w.disk.fired.get("precision_flip", 0) + 1
            ev["bits"] = op["bits"]
        elif k == "resave":
            from prysm.interferogram import Interferogram
            src = model.get(op["src"])
            ok_src = (src is not None and not src.get("unjudgeable") and src["fmt"] != "codev" and not src.get("huge")
                      and w.disk.files.get(op["src"]) == src["full"])
            if not ok_src:
                ev["out"] = "skip:no-complete-zygo-source"
                events.append(ev)
                continue
            try:
                obj = Interferogram.from_zygo_dat(op["src"])
                dx_new = float(obj.dx)
                wl = float(obj.wavelength)
                for step in op["prep"]:
                    if step[0] == "latcal":
                        obj.latcal(step[1])
                        dx_new = float(step[1])
                    elif step[0] == "strip_latcal":
                        obj.strip_latcal()
                        dx_new = 1.0
                    elif step[0] == "rebuild" and obj.meta:
                        # a new object from the pieces of the loaded one: same data, same spacing, the
                        # wavelength taken from the same metadata dict (as from_zygo_dat itself does)
                        obj = Interferogram(obj.data, dx=obj.dx, wavelength=None, meta=obj.meta,
                                            intensity=obj.intensity)
                        bump(probes, "interferogram_rebuilt_from_its_own_meta")
                loaded = np.array(obj.data, dtype=np.float64)
                obj.save_zygo_dat(op["path"])
                now = w.disk.files.get(op["path"])
                # what must come back is what the object held when it was saved (the map as loaded,
                # i.e. already quantised once), with the object's current spacing and wavelength
                e2 = {"fmt": "ifg", "path": op["path"], "huge": False, "map": loaded, "dx": dx_new, "wvl": wl,
                      "full": now, "f32": obj.data.dtype == np.float32}
                e2["layout"] = _layout(w, "ifg", loaded.shape, dx_new, wl)
                model[op["path"]] = e2
                ev["out"] = "ok"
                ev["len"] = len(now)
                bump(probes, "loaded_object_saved_again")
            except Exception as e:
                ev["out"] = "raised:" + type(e).__name__
                model.pop(op["path"], None)
        elif k == "write":
            fmt, path = op["fmt"], op["path"]
            if "reuse" in op and op["reuse"] in objs:
                holder = objs[op["reuse"]]
                bump(probes, "same_object_saved_again")
                obj = holder.get("ifg")
                if obj is not None and fmt == "ifg" and op.get("restep") and op["map"]["vals"] != "huge":
                    try:
                        for step in op["restep"]:
                            gm = np.random.Generator(np.random.PCG64(op["map"]["seed"] + 11 + i))
                            if step[0] == "mask":
                                obj.mask(gm.random(obj.data.shape) < 0.7)
                            elif step[0] == "spike_clip":
                                obj.spike_clip(1.0)
                            elif step[0] == "fill":
                                obj.fill(0.0)
                            elif step[0] == "edit":
                                obj.data[gm.random(obj.data.shape) < 0.3] = np.nan      # the user edits the data directly
                            elif step[0] == "dropout_percentage":
                                obj.dropout_percentage
                            elif step[0] in ("swap", "flip"):
                                _rearrange(np, obj.data, step[0], gm)
                    except Exception:
                        pass
                    if obj.data.ndim == 2 and obj.data.size > 0:
                        holder["z"] = obj.data
                        holder["pristine"] = np.array(obj.data, copy=True)
                    bump(probes, "object_processed_between_saves")
                elif obj is None and fmt != "ifg" and op.get("restep") and holder["z"].dtype.kind == "f":
                    # the caller's own array, edited in place between two saves
                    zz = holder["z"]
                    for step in op["restep"]:
                        gm = np.random.Generator(np.random.PCG64(op["map"]["seed"] + 11 + i))
                        if step[0] in ("swap", "flip"):
                            _rearrange(np, zz, step[0], gm)
                        elif step[0] == "fill" and op["map"]["vals"] != "huge":
                            zz[np.isnan(zz)] = 0.0
                    holder["pristine"] = np.array(zz, copy=True)
                    bump(probes, "array_edited_between_saves")
            else:
                z0 = build_map(np, op["map"], op["wvl"], fmt)
                holder = {"z": z0, "pristine": z0.copy(), "ifg": None}
                objs[i] = holder
            if fmt == "ifg" and holder["ifg"] is None:
                # the caller's long-lived Interferogram: built once, processed a little, then saved (perhaps
                # several times).  What must come back is what the object holds when it is saved.
                from prysm.interferogram import Interferogram
                zero_d = op.get("scalars") == "0d" and op["dx"] != 0
                obj = Interferogram(holder["z"], dx=np.array(float(op["dx"])) if zero_d else op["dx"],
                                    wavelength=np.array(float(op["wvl"])) if zero_d else op["wvl"],
                                    intensity=_intensity(np, holder["z"], op.get("intensity")))
                try:
                    for step in (op.get("prep") or []):
                        if step[0] == "strip_latcal":
                            obj.strip_latcal()
                        elif step[0] == "latcal":
                            obj.latcal(step[1])
                        elif step[0] == "recenter":
                            obj.recenter()
                        elif step[0] == "read_r":
                            obj.r
                        elif step[0] == "crop":
                            obj.crop()
                        elif step[0] == "pad":
                            obj.pad(samples=1)
                        elif step[0] == "mask":
                            gm = np.random.Generator(np.random.PCG64(op["map"]["seed"] + 7))
                            obj.mask(gm.random(obj.data.shape) < 0.8)
                        elif step[0] == "remove_piston" and bool(np.any(np.isfinite(obj.data))) and op["map"]["vals"] != "huge":
                            # (not for maps near the format's range: removing the mean may push them beyond it)
                            obj.remove_piston()
                except Exception:
                    pass
                holder["ifg"] = obj
                if obj.data.ndim == 2 and obj.data.size > 0:
                    holder["z"] = obj.data
                    holder["pristine"] = np.array(obj.data, copy=True)
                holder["ifg_dx"] = float(obj.dx)
                holder["ifg_wvl"] = float(obj.wavelength)
            z = holder["z"]
            zfix = holder["pristine"]
            dx_eff = holder["ifg_dx"] if fmt == "ifg" else op["dx"]
            wvl_eff = holder["ifg_wvl"] if fmt == "ifg" else op["wvl"]
            ev.update({"fmt": fmt, "path": path, "shape": list(zfix.shape)})
            fault = op.get("fault")
            # fault-free dry run to a scratch path: the complete byte image of this write
            full = None
            dry_exc = None
            lean = bool(cfg.get("lean_writes")) and not fault and zfix.size <= 120000
            if lean:
                full = b""                       # filled in from the disk after the write itself
                bump(probes, "write_without_scaffolding_call")
            else:
                try:
                    _write(w, "zygo_path" if fmt in ("zygo_file",) else fmt, "/sim/.dry", zfix.copy(), dx_eff, wvl_eff,
                           op.get("cv"), None, None, op.get("intensity"))
                    full = w.disk.files.pop("/sim/.dry")
                except Exception as e:
                    dry_exc = e
                    w.disk.files.pop("/sim/.dry", None)
            if full is None:
                # the writer cannot write this map at all
                ev["out"] = "writer-raised:" + type(dry_exc).__name__
                if not bool(np.all(np.isnan(zfix))):
                    viol("write-raised", i, "codev" if fmt == "codev" else "zygo", "none",
                         exc=type(dry_exc).__name__, msg=str(dry_exc)[:160], vals=op["map"]["vals"], nan=op["map"]["nan"])
                model.pop(path, None)
                w.disk.files.pop(path, None)
                events.append(ev)
                continue
            huge = zfix.size > 120000
            if huge:
                fault = None                      # the round trip itself is the point for such a map
                bump(probes, "huge_map_over_1e5_samples")
            entry = {"fmt": fmt, "path": path, "huge": huge, "map": np.array(zfix, dtype=np.float64),
                     "dx": dx_eff, "wvl": wvl_eff,
                     "full": full, "f32": zfix.dtype == np.float32}
            entry["layout"] = {"ok": False, "pos": []} if huge else _layout(w, fmt, z.shape, dx_eff, wvl_eff)
            spans = None if lean else _sample_spans(w, entry)
            if fault:
                at = _resolve(fault["where"], entry, spans)
                if fault["kind"] == "eio_close":
                    # half of the time the failing flush also loses a tail of the data
                    lose = int(fault["survive_u"] * 64) if fault["survive_u"] < 0.5 else 0
                    w.disk.arm(path, {"kind": "eio_close", "lose": lose})
                else:
                    w.disk.arm(path, {"kind": fault["kind"], "at": at, "survive": int(fault["survive_u"] * (at + 1))})
                ev["fault"] = [fault["kind"], at]
            out = "ok"
            prev_entry, prev_bytes = model.get(path), w.disk.files.get(path)
            dx_arg, wvl_arg = op["dx"], op["wvl"]
            if op.get("scalars") == "0d" and fmt in ("zygo_path", "zygo_file"):
                # the caller's own 0-d arrays, the same objects for every save of this map
                if "dx_obj" not in holder:
                    holder["dx_obj"], holder["wvl_obj"] = np.array(float(op["dx"])), np.array(float(op["wvl"]))
                dx_arg, wvl_arg = holder["dx_obj"], holder["wvl_obj"]
                bump(probes, "spacing_and_wavelength_as_0d_arrays")
            try:
                _write(w, fmt, path, z, dx_arg, wvl_arg, op.get("cv"), holder, op.get("prep"), op.get("intensity"),
                       bool(op.get("pathobj")) and fmt != "zygo_file")
            except SimCrash:
                out = "crash"
            except Exception as e:
                out = "raised:" + type(e).__name__
            w.disk.armed.pop(path, None)
            ev["out"] = out
            if "dx_obj" in holder and (float(holder["dx_obj"]) != float(op["dx"]) or float(holder["wvl_obj"]) != float(op["wvl"])):
                viol("input-mutated", i, "zygo", "none",
                     what="the 0-d array holding the spacing / wavelength passed to the writer was modified in place")
                holder["dx_obj"][...] = float(op["dx"])
                holder["wvl_obj"][...] = float(op["wvl"])
            # the caller's array must still hold what was handed in
            same = z.shape == zfix.shape and z.dtype == zfix.dtype and bool(
                np.all((z == zfix) | (np.isnan(z) & np.isnan(zfix))))
            if not same:
                viol("input-mutated", i, "codev" if fmt == "codev" else "zygo", "none",
                     what="the height map passed to the writer was modified in place")
                holder["z"] = zfix.copy()
                holder["ifg"] = None
            now = w.disk.files.get(path)
            ev["len"] = -1 if now is None else len(now)
            ev["fp"] = core.fp_bytes(now or b"")
            if lean:
                if out == "ok" and now is not None:
                    full = now
                    entry["full"] = now
                else:
                    # the writer failed although nothing was injected
                    ev["out"] = "writer-" + out
                    if not bool(np.all(np.isnan(zfix))):
                        viol("write-raised", i, "codev" if fmt == "codev" else "zygo", "none",
                             exc=out.split(":")[-1], msg="", vals=op["map"]["vals"], nan=op["map"]["nan"])
                    model.pop(path, None)
                    w.disk.files.pop(path, None)
                    events.append(ev)
                    continue
            if out == "ok" and fault and (now is None or (len(now) < len(full) and full.startswith(now))):
                # an I/O error happened during this write and the writer returned as if nothing had:
                # the caller has no way to know the file is incomplete
                viol("write-error-swallowed", i, "codev" if fmt == "codev" else "zygo", "none",
                     fault=fault["kind"], on_disk=-1 if now is None else len(now), complete=len(full))
            if out != "ok" and now is None:
                # the failed write left nothing at the path (e.g. a writer that goes through a
                # temporary file and renames): later reads have nothing to be judged against
                bump(probes, "failed_write_left_no_file")
                model.pop(path, None)
                events.append(ev)
                continue
            if out != "ok" and prev_bytes is not None and now == prev_bytes and not full.startswith(now):
                # ... or left the previous file untouched (atomic replace): the old model entry stands
                bump(probes, "failed_write_rolled_back")
                if prev_entry is None:
                    model.pop(path, None)
                events.append(ev)
                continue
            if now is None:
                now = b""
            if out in ("ok", "raised:OSError") and len(now) == len(full) and now != full:
                # same clock, same map, different bytes: the writer is not a pure function of
                # (map, clock).  Not a clause of the property; judge against what is on disk.
                bump(probes, "writer_not_reproducible")
                entry["full"] = now
            elif out == "ok" and now.startswith(full):
                # complete image followed by stale bytes (a writer that did not truncate):
                # readers still have to return the map
                bump(probes, "complete_file_with_trailing_bytes")
            elif not full.startswith(now):
                # a faulted file that is not a prefix of the dry-run image cannot be
                # judged by the cut-file contract (which samples were lost is unknown)
                bump(probes, "faulted_file_not_a_prefix")
                entry["unjudgeable"] = True
            model[path] = entry
            if len(model) > 1 or any(e.get("op") == "write" and e.get("path") == path for e in events):
                bump(probes, "overwrite_or_multi_path")
            if fmt == "zygo_file":
                bump(probes, "filelike_branch")
            if bool(np.all(np.isnan(zfix))):
                bump(probes, "all_nan_map")
            if 1 in zfix.shape:
                bump(probes, "one_by_n")
            if zfix.dtype == np.float32:
                bump(probes, "float32_map")
            if not zfix.flags["C_CONTIGUOUS"]:
                bump(probes, "non_c_contiguous_map")
        elif k in ("read", "cut", "cutscan"):
            path = op["path"]
            entry = model.get(path)
            if entry is None or entry.get("unjudgeable"):
                ev["out"] = "skip:nothing-written" if entry is None else "skip:unjudgeable"
                events.append(ev)
                continue
            if entry.get("huge") and k != "read":
                ev["out"] = "skip:huge-map"
                events.append(ev)
                continue
            spans = _sample_spans(w, entry)
            if k == "cut":
                kk = _resolve(op["where"], entry, spans)
                kk = min(kk, len(w.disk.files[path]))
                w.disk.files[path] = w.disk.files[path][:kk]
                w.disk.fired["cut"] = w.disk.fired.get("cut", 0) + 1
                ev["k"] = kk
                ev["region"] = _region(entry, spans, kk)
            elif k == "read":
                cur_len = len(w.disk.files[path])
                res = _read(w, entry, op.get("via", "io"), eio=bool(op.get("eio")), pathobj=bool(op.get("pathobj")))
                ev["k"] = cur_len
                ev["out"] = res[0] + (":" + type(res[5]).__name__ if res[5] is not None else "") + (":warned" if res[4] else "")
                if res[1] is not None:
                    ev["fp"] = core.fp_array(res[1])
                    # the caller keeps what a read returned; later reads and writes must not change it
                    if len(kept) < 6:
                        kept.append((i, res[1], res[1].copy()))
                if op.get("eio"):
                    # a read error was injected (once).  The reader may fail, or say loudly that what it
                    # returns is partial; if it returns quietly - because it recovered, e.g. a failed probe of
                    # the file signature followed by an ordinary read - the result is judged like any other
                    # read of this file: never wrong data in silence
                    if res[0] == "ok" and not res[4]:
                        _judge(w, entry, spans, cur_len, res, i, viol, bump, probes)
                else:
                    _judge(w, entry, spans, cur_len, res, i, viol, bump, probes)
                    nontrivial = True
                    if cur_len < len(entry["full"]):
                        extra["cut_offsets_read"] += 1
            else:  # cutscan: every data-block offset, header offsets with a stride
                saved = w.disk.files[path]
                full = entry["full"]
                if saved != full:
                    ev["out"] = "skip:file-not-complete"
                    events.append(ev)
                    continue
                L = len(full)
                data0 = spans[0][0] if spans else L
                stride = max(1, int(op.get("header_stride", 97)))
                offs = sorted(set(list(range(0, data0, stride)) + list(range(max(0, data0 - 2), L + 1))))
                if len(offs) > 1500:
                    # large file: the neighbourhood of both ends of the data block plus an even subsample
                    keep = set(offs[:40] + offs[-300:] + [o for o in offs if data0 - 2 <= o <= data0 + 40])
                    step_ = max(1, len(offs) // 600)
                    offs = sorted(keep | set(offs[::step_]))
                outs = {}
                for kk in offs:
                    w.disk.files[path] = full[:kk]
                    res = _read(w, entry, op.get("via", "io"))
                    _judge(w, entry, spans, kk, res, i, viol, bump, probes)
                    key = res[0] + (":warned" if res[4] else "")
                    outs[key] = outs.get(key, 0) + 1
                w.disk.files[path] = saved
                w.disk.fired["cut"] = w.disk.fired.get("cut", 0) + len(offs)
                extra["cut_offsets_read"] += len(offs)
                ev["scan"] = [len(offs), outs]
                nontrivial = True
                bump(probes, "cutscan")
        else:
            raise RuntimeError(f"unknown op {k}")
        events.append(ev)
        # reach measure: (op, format, reader, state of the file on disk, fault kind and region, outcome, map class)
        ent = model.get(op.get("path")) if op.get("path") else None
        fstate = ""
        if ent is not None and op.get("path") in w.disk.files:
            cur_len = len(w.disk.files[op["path"]])
            fstate = "complete" if cur_len >= len(ent["full"]) else "cut:" + _region(ent, _sample_spans(w, ent), cur_len)
        flt = ev.get("fault") or [""]
        fregion = ""
        if len(flt) > 1 and ent is not None:
            fregion = _region(ent, _sample_spans(w, ent), flt[1])
        mp = op.get("map") or {}
        trans.add("|".join(str(x) for x in (k, ev.get("fmt", ent["fmt"] if ent else ""), op.get("via", ""), fstate, flt[0], fregion,
                                            str(ev.get("out", ""))[:24], mp.get("vals", ""), mp.get("nan", ""),
                                            "1xN" if mp and 1 in mp["shape"] else "")))

    for (ri, live, snap) in kept:
        same = live.shape == snap.shape and bool(np.all((live == snap) | (np.isnan(live) & np.isnan(snap))))
        if not same:
            viol("result-mutated", ri, "any", "none", what="an array returned by an earlier read was changed by later calls")
    faults = dict(w.disk.fired)
    extra["simulated_clock_span_s"] = abs(clock.now_s - clock.t0)
    extra["clock_reads"] = clock.reads
    return {"events": events, "violations": violations[:20], "faults": faults, "probes": probes,
            "trans": sorted(trans), "nontrivial": nontrivial, "extra": extra}


# ---------------------------------------------------------------------------

def signature(v):
    s = f"{v['oracle']}:{v['fmt']}"
    if v["oracle"].startswith("cut"):
        s += ":" + v["region"]
    if v.get("orient"):
        s += ":" + v["orient"]
    return s


def simplifiers(plan):
    if plan["config"].get("precision0") != 64:
        p = copy.deepcopy(plan)
        p["config"]["precision0"] = 64
        yield p
    for i, op in enumerate(plan["ops"]):
        if op["op"] == "write":
            if "fault" in op:
                p = copy.deepcopy(plan)
                del p["ops"][i]["fault"]
                yield p
            mp = op["map"]
            if mp["nan"] != "none":
                p = copy.deepcopy(plan)
                p["ops"][i]["map"]["nan"] = "none"
                yield p
            if mp["vals"] not in ("mixed",):
                p = copy.deepcopy(plan)
                p["ops"][i]["map"]["vals"] = "mixed"
                yield p
            if mp["mag"] != 100.0:
                p = copy.deepcopy(plan)
                p["ops"][i]["map"]["mag"] = 100.0
                yield p
            for j in range(2):
                if mp["shape"][j] > 1:
                    p = copy.deepcopy(plan)
                    p["ops"][i]["map"]["shape"][j] -= 1
                    yield p
            if op["wvl"] != 0.6328:
                p = copy.deepcopy(plan)
                p["ops"][i]["wvl"] = 0.6328
                yield p
            if op["dx"] != 1.0:
                p = copy.deepcopy(plan)
                p["ops"][i]["dx"] = 1.0
                yield p
            if op["fmt"] in ("zygo_file", "ifg"):
                p = copy.deepcopy(plan)
                p["ops"][i]["fmt"] = "zygo_path"
                yield p
        if op["op"] == "read" and op.get("via") == "ifg":
            p = copy.deepcopy(plan)
            p["ops"][i]["via"] = "io"
            yield p
        if op["op"] == "cutscan":
            # replace a scan by a single cut + read is done by ddmin when the scan is not needed;
            # otherwise keep the scan (the failing offset is in the violation record)
            pass


EXHAUSTIVE_NOTE = ("every cut offset 0..L (header stride 1) of the complete file, for a fixed family of small maps "
                   "(thorough: 12 shapes x 8 value/NaN patterns x 5 writer/reader pairs x 2 precisions; quick: 4 shapes x 2 "
                   "patterns x 4 pairs), plus a write/read round trip of the text format for every sample count 1..2400 "
                   "(quick: 1..660): this family is enumerated completely; everything else is sampled")

RULE = ("A run is a seeded history of 2-12 writes (Zygo .dat via path and via file object, Interferogram.save_zygo_dat, "
        "Code V grid INT), reads (prysm.io readers and Interferogram.from_zygo_dat), post-hoc cuts, cut scans and clock "
        "jumps on 1-3 paths of an in-memory disk, with at most one armed fault per write (ENOSPC at byte k, crash at "
        "byte k with a seeded prefix surviving, EIO on close) and EIO on read; each run in a fresh forked interpreter. "
        "Non-trivial: at least one read was judged against the model. Distinct: distinct event-log digests (ops, "
        "resolved fault offsets, outcomes, file and result fingerprints).")

COMPONENTS = {
    "real": ["prysm.io.write_zygo_dat / read_zygo_dat / read_zygo_metadata", "prysm.io.write_codev_gridint / read_codev_gridint",
             "prysm.interferogram.Interferogram.save_zygo_dat / from_zygo_dat", "numpy.savetxt / fromstring / frombuffer",
             "struct"],
    "stub": ["disk: sim.faults.SimDisk shadows prysm.io.open and prysm.io.Path; np.savetxt routed into it by a backend proxy",
             "clock: sim.faults.SimClock shadows prysm.io.datetime"],
}

EXPECTED_PROBES = ["filelike_branch", "all_nan_map", "one_by_n", "overwrite_or_multi_path", "cutscan",
                   "cut_marked_invalid_with_warning", "cut_rejected_with_exception", "complete_roundtrip_ok"]
