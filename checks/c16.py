"""C16 — the sensor model under a simulated noise source.

prysm.detector.Detector.expose draws Poisson and Gaussian noise from the
process-global numpy.random through the backend shim.  The simulator owns that
generator (SimRandom: noise-free, monotone-coupled common random numbers,
adversarial tails, and a real seeded generator), so that 'noise off equals the
clipped gain-scaled signal' and 'a brighter pixel never reads darker' become
checkable, replayable statements.  Binning / tiling / Bayer identities ride
along as invariants on the frames the simulated exposures produce.
"""
import copy
import math

from sim import core
from sim.faults import BackendProxy

PROP = "C16"


# ---------------------------------------------------------------------------
# the simulated random source

class SimRandom:
    """Counter-based stand-in for numpy.random: the value of a draw is a
    function of (run stream, call index within the exposure, element index)."""

    def __init__(self, np, mode, seed):
        self.np = np
        self.mode = mode
        self._seed = int(seed)
        self.calls = 0
        self.total_calls = 0
        self.exposure = 0
        self.tail_hi = 0
        self.tail_lo = 0
        self._real = np.random.RandomState(self._seed % (2 ** 32))

    def begin_exposure(self, coupled_to_previous=False):
        """Compared exposures restart the call counter and keep the exposure
        id, so that they see the same per-pixel draws (common random numbers)."""
        self.calls = 0
        if not coupled_to_previous:
            self.exposure += 1

    def _z(self, size, tag):
        np = self.np
        self.calls += 1
        self.total_calls += 1
        g = np.random.Generator(np.random.PCG64([self._seed, self.exposure, self.calls, tag]))
        if size is None:
            size = ()
        z = g.standard_normal(size)
        if self.mode == "tails":
            mag = g.uniform(5.0, 40.0, size)
            sgn = np.where(g.random(size) < 0.5, -1.0, 1.0)
            z = mag * sgn
            self.tail_hi += int(np.sum(np.asarray(z) > 0))
            self.tail_lo += int(np.sum(np.asarray(z) < 0))
        return z

    def poisson(self, lam=1.0, size=None):
        np = self.np
        lam = np.asarray(lam, dtype=np.float64)
        if np.any(lam < 0) or np.any(~np.isfinite(lam)):
            raise ValueError("lam < 0 or lam contains NaNs")
        if size is None:
            size = lam.shape
        if self.mode == "real":
            self.calls += 1
            self.total_calls += 1
            return self._real.poisson(np.minimum(lam, 1e18), size)
        if self.mode == "off":
            self.calls += 1
            self.total_calls += 1
            return np.array(np.broadcast_to(lam, size), dtype=np.float64)
        z = self._z(size, 1)
        v = np.rint(lam + z * np.sqrt(lam))
        v = np.clip(v, 0, 9e18)
        return v.astype(np.int64)

    def normal(self, loc=0.0, scale=1.0, size=None):
        np = self.np
        if self.mode == "real":
            self.calls += 1
            self.total_calls += 1
            return self._real.normal(loc, scale, size)
        if self.mode == "off":
            self.calls += 1
            self.total_calls += 1
            shp = size if size is not None else np.broadcast(np.asarray(loc), np.asarray(scale)).shape
            return np.zeros(shp, dtype=np.float64) + loc
        z = self._z(size, 2)
        return loc + scale * z

    def standard_normal(self, size=None):
        return self.normal(0.0, 1.0, size)

    # Generator-style entry points, should an implementation prefer them
    def default_rng(self, seed=None):
        return self

    def RandomState(self, seed=None):
        return self

    def seed(self, *a, **k):
        return None

    def __getattr__(self, key):
        # anything else (uniform, random, ...) comes from the seeded real generator
        return getattr(self._real, key)


# ---------------------------------------------------------------------------
# generation

_BITS = [1, 2, 4, 7, 8, 8, 9, 10, 12, 12, 14, 15, 16, 16, 17, 24, 31, 32, 32]


def generate(rng, tier):
    hi = 10 if tier == "quick" else 16
    mode = rng.choice(["off", "off", "coupled", "coupled", "tails", "real"])
    exact = rng.random() < 0.4
    bits = rng.choice(_BITS)
    cap = 2 ** bits - 1
    if exact:
        gain = rng.choice([0.25, 0.5, 1.0, 2.0, 4.0])
        bias = float(rng.choice([0, 0, 10, 100, -5]))
        t = float(rng.choice([0, 1, 1, 2]))
        dark = float(rng.choice([0, 0, 3]))
        read_noise = float(rng.choice([0, 1, 4]))
    else:
        gain = round(10 ** rng.uniform(math.log10(0.05), math.log10(50)), 4)
        bias = round(rng.uniform(-50, 5000) if rng.random() < 0.7 else 0.0, 3)
        t = rng.choice([0.0, 1.0, rng.uniform(0.001, 10)])
        dark = rng.choice([0.0, 0.0, rng.uniform(0, 100)])
        read_noise = rng.choice([0.0, rng.uniform(0, 20)])
    # full well: sometimes below, sometimes above what the ADC can express
    adc_e = cap * gain
    c = rng.random()
    if c < 0.35:
        fwc = max(10.0, adc_e * rng.uniform(0.2, 0.95))
    elif c < 0.7:
        fwc = max(10.0, adc_e * rng.uniform(1.05, 20))
    else:
        fwc = 10 ** rng.uniform(1, 7)
    if exact:
        fwc = float(max(10, round(fwc)))
    if rng.random() < 0.2:
        bias = int(round(bias))            # integer-typed settings are legal
    if rng.random() < 0.15 and float(t).is_integer():
        t = int(t)
    if rng.random() < 0.15:
        fwc = fwc + rng.choice([0.25, 0.5, 0.75])      # a fractional full well
    frames = rng.choice([1, 1, 1, 2, 3, 4])
    m = rng.randint(2, hi)
    n = m if rng.random() < 0.4 else rng.randint(2, hi)
    big = core.rare(rng, 0.001 if tier == "quick" else 0.003, phase=53)
    c = rng.random()
    if c < 0.5:
        m, n = 2 * ((m + 1) // 2), 2 * ((n + 1) // 2)      # even shapes feed the Bayer stage
    elif c < 0.6:
        m = 1                                               # line sensors: 1xN, Nx1, 1x1
    elif c < 0.7:
        n = 1
    elif c < 0.72:
        m = n = 1
    if big:
        # a realistically large burst (several million samples in one call)
        m, n, frames = rng.choice([(512, 512, 17), (480, 640, 15), (256, 256, 70), (1024, 600, 7)])
        prnu = dcnu = None
    prnu = dcnu = None
    if not exact and not big and rng.random() < 0.3:
        prnu = {"seed": rng.getrandbits(32), "spread": rng.choice([0.0, 0.02, 0.3, 1e-5, 2e-6]),
                "dtype": rng.choice(["f64", "f64", "f32"]), "zeros": rng.random() < 0.1,
                "layout": rng.choice(["c", "c", "strided", "transposed"])}
    if not big and rng.random() < 0.2:
        dcnu = {"seed": rng.getrandbits(32), "spread": rng.choice([0.0, 0.1, 0.5, 1e-5]),
                "dtype": rng.choice(["f64", "f64", "f32", "i64"]),
                "layout": rng.choice(["c", "c", "strided", "transposed"])}
    if dcnu and rng.random() < 0.3:
        dcnu["shape"] = rng.choice(["col", "row"])        # a per-row (m, 1) or per-column (1, n) map, legal by broadcasting
        dcnu["spread"] = rng.choice([0.5, 1.5])
        if not exact:
            dark = rng.choice([50.0, 500.0, 5000.0])        # enough dark charge for the map to matter
            t = t if t > 0 else 1.0
    det = {"bits": bits, "gain": gain, "bias": bias, "fwc": fwc, "dark": dark, "t": t,
           "read_noise": read_noise, "frames": frames, "prnu": prnu, "dcnu": dcnu,
           # an identity look-up table (code -> code): changes no value, but the frames go through the table stage
           "lut": bits <= 12 and rng.random() < 0.2}
    tt = t if t > 0 else 1.0
    regime = rng.choice(["dark", "mid", "fwc", "adc", "adc", "beyond", "beyond"])
    img = {"shape": [m, n], "seed": rng.getrandbits(32), "regime": regime, "exact": exact,
           "dtype": rng.choice(["f64", "f64", "f64", "f32", "i64"]) if exact or rng.random() < 0.5 else "f64",
           "fwc_level": fwc / tt, "adc_level": max(adc_e - bias, 0.0) / tt,
           "beyond": 10 ** rng.uniform(1, 6)}
    if mode == "off" and not exact and not big and rng.random() < 0.04:
        # an absurdly over-exposed scene on a sensor whose full well is (practically) unbounded: the reading is
        # the ADC ceiling, whatever integer type an intermediate happens to have
        det["fwc"] = rng.choice([1e25, 1e30, float("inf")])
        det["gain"] = rng.choice([0.001, 0.05, 0.5])
        det["prnu"] = det["dcnu"] = None
        img.update({"regime": "astro", "dtype": "f64", "t_eff": tt, "fwc_level": det["fwc"] / tt})
    ops = [{"op": "expose"}]
    if rng.random() < 0.8:
        ops.append({"op": "brighter", "seed": rng.getrandbits(32),
                    "kind": rng.choice(["uniform", "sparse", "cross", "tiny", "huge"])})
    if rng.random() < 0.5:
        # the same image once more on the same Detector object, same draws: a
        # detector that keeps state between exposures shows up here
        ops.insert(rng.randint(1, len(ops)), {"op": "again"})
    if rng.random() < 0.35:
        # reconfigure the (possibly shared) detector, then expose again: the new frame
        # must follow the new settings, whatever the object remembered
        what = rng.choice(["t", "dark", "gain", "bias", "fwc", "dcnu", "prnu", "bits", "frames"])
        if prnu and prnu["dtype"] == "f64" and rng.random() < 0.4:
            what = "prnu_scale"               # the installed map is edited in place (det.prnu *= k)
        elif dcnu and dcnu["dtype"] == "f64" and rng.random() < 0.4:
            what = "dcnu_scale"
        val = {"t": rng.choice([0.0, 0.5, 2.0, 3.0]), "dark": rng.choice([0.0, 5.0, 40.0]),
               "gain": rng.choice([0.5, 2.0, gain * 3]), "bias": float(rng.choice([0, 50, 500])),
               "fwc": fwc * rng.choice([0.25, 4.0]), "dcnu": {"seed": rng.getrandbits(32), "spread": 0.6},
               "prnu": None if exact else {"seed": rng.getrandbits(32), "spread": 0.4},
               "bits": rng.choice(_BITS), "frames": rng.choice([1, 2, 3]),
               "prnu_scale": rng.choice([0.5, 0.75, 1.25]), "dcnu_scale": rng.choice([0.5, 2.0])}[what]
        ops.append({"op": "reconf", "set": {what: val}})
        ops.append({"op": "expose"})
        if rng.random() < 0.6:
            ops.append({"op": "brighter", "seed": rng.getrandbits(32),
                        "kind": rng.choice(["uniform", "sparse", "cross", "huge"])})
    if rng.random() < 0.3:
        # another Detector with other settings (and another image shape) is used in between, and a
        # call that fails half way: neither may leave anything behind that the next exposure sees
        pos = rng.randint(1, len(ops))
        ops.insert(pos, {"op": "decoy", "bits": rng.choice(_BITS), "gain": rng.choice([0.5, 3.0, 7.0]),
                         "shape": [rng.randint(1, 6), rng.randint(1, 6)], "poison": rng.random() < 0.5})
        ops.insert(pos + 1, {"op": "again"})
    if prnu is None and dcnu is None and m != n and rng.random() < 0.3:
        # the same Detector is pointed at an image of the same size but another shape (the sensor read out
        # turned by 90 degrees), then at the first image again
        pos = rng.randint(1, len(ops))
        ops.insert(pos, {"op": "turned"})
        ops.insert(pos + 1, {"op": "again"})
    for _ in range(rng.randint(0, 3)):
        c = rng.random()
        if c < 0.5:
            ops.append({"op": "bin", "seed": rng.getrandbits(32), "mode": rng.choice(["sum", "avg"]),
                        "scalar": rng.random() < 0.25, "stack": rng.random() < 0.5,
                        "src": rng.choice(["float", "float", "dn", "dn", "bool"]),
                        "nd": rng.choice(["asis", "asis", "asis", "1d", "4d"])})
        else:
            ops.append({"op": "bayer", "cfa": rng.choice(["rggb", "bggr"]), "as_int": rng.random() < 0.5,
                        "signed": rng.random() < 0.25,
                        "spelling": rng.choice(["lower", "lower", "lower", "upper", "title"])})
    if big:
        ops = [{"op": "expose"}, {"op": "again"}]          # the burst itself is the point; no per-block Python loops
        if rng.random() < 0.7:
            mode = "off"                                    # every sample of every frame is then decided exactly
    return {"prop": PROP, "tier": tier, "config": {"mode": mode, "rng_seed": rng.getrandbits(48),
                                                    "reuse_detector": rng.random() < 0.6,
                                                    "precision0": 64 if rng.random() < 0.85 else 32,
                                                    "frames_np": rng.random() < 0.15,
                                                    "attr_0d": (rng.sample(["dark", "read_noise", "bias", "fwc", "gain", "t"],
                                                                           rng.randint(1, 3))
                                                                if rng.random() < 0.12 else []),
                                                    "bits_form": rng.choice(["int", "int", "int", "int", "np", "float"])},
            "det": det, "img": img, "ops": ops}


def build_img(np, spec):
    m, n = spec["shape"]
    g = np.random.Generator(np.random.PCG64(spec["seed"]))
    u = g.random((m, n))
    reg = spec["regime"]
    fw, ad = spec["fwc_level"], spec["adc_level"]
    sat = max(min(fw, ad) if min(fw, ad) > 0 else max(fw, ad), 1.0)
    if reg == "dark":
        img = u * 5
    elif reg == "mid":
        img = u * sat * 0.8
    elif reg == "fwc":
        img = fw * (0.9 + 0.2 * u)
    elif reg == "adc":
        img = ad + (u - 0.5) * 4 * max(1.0, ad * 1e-3)
    elif reg == "astro":
        img = 10.0 ** (15.5 + 3.0 * u) / spec.get("t_eff", 1.0)      # 3e15 .. 3e18 electrons: beyond int64 once divided by a small gain
    else:
        img = sat * (1 + u * spec["beyond"])
    img = np.maximum(img, 0.0)
    if spec["exact"]:
        img = np.rint(img)
    dt = spec.get("dtype", "f64")
    if dt == "i64":
        return np.minimum(np.rint(img), 9e15).astype(np.int64)
    if dt == "f32":
        return img.astype(np.float32)
    return img.astype(np.float64)


def _factors(g, shape, scalar):
    out = []
    for s in shape:
        divs = [d for d in range(1, s + 1) if s % d == 0]
        out.append(int(divs[int(g.integers(0, len(divs)))]))
    if scalar:
        # a scalar factor must divide every axis
        common = [d for d in range(1, min(shape) + 1) if all(s % d == 0 for s in shape)]
        return int(common[int(g.integers(0, len(common)))])
    return out


# ---------------------------------------------------------------------------
# execution

def execute(plan):
    core.import_prysm()
    import warnings
    import numpy as np
    from prysm import mathops
    from prysm import detector as D
    from prysm import bayer as B

    warnings.simplefilter("ignore")
    np.seterr(all="ignore")
    cfg = plan["config"]
    mode = cfg["mode"]
    from prysm.conf import config as _pcfg
    _pcfg.precision = cfg.get("precision0", 64)
    lowp = cfg.get("precision0", 64) == 32      # the library-wide single-precision setting is in force
    sim = SimRandom(np, mode, cfg["rng_seed"])
    mathops.np._srcmodule = BackendProxy(np, random=sim)

    d = dict(plan["det"])          # live configuration: "reconf" ops change it
    img = build_img(np, plan["img"])
    m, n = img.shape

    class S:                       # values derived from the live configuration
        pass

    def refresh():
        S.bits = d["bits"]
        S.cap = 2 ** S.bits - 1
        S.prnu = S.dcnu = None
        if d["prnu"]:
            g = np.random.Generator(np.random.PCG64(d["prnu"]["seed"]))
            S.prnu = 1.0 + d["prnu"]["spread"] * (g.random((m, n)) - 0.5)
            if d["prnu"].get("zeros"):
                S.prnu[g.random((m, n)) < 0.2] = 0.0          # dead pixels
            if d["prnu"].get("dtype") == "f32":
                S.prnu = S.prnu.astype(np.float32)
            S.prnu = S.prnu * d.get("prnu_scale_acc", 1.0) if d.get("prnu_scale_acc") else S.prnu
        if d["dcnu"]:
            g = np.random.Generator(np.random.PCG64(d["dcnu"]["seed"]))
            shp = {"col": (m, 1), "row": (1, n)}.get(d["dcnu"].get("shape"), (m, n))
            S.dcnu = 1.0 + d["dcnu"]["spread"] * (g.random(shp) - 0.5)
            if d["dcnu"].get("dtype") == "f32":
                S.dcnu = S.dcnu.astype(np.float32)
            elif d["dcnu"].get("dtype") == "i64":
                S.dcnu = np.rint(S.dcnu * 2).astype(np.int64)
            S.dcnu = S.dcnu * d.get("dcnu_scale_acc", 1.0) if d.get("dcnu_scale_acc") else S.dcnu

    refresh()

    def laid_out(a, spec):
        """The caller's map object in the memory layout it happens to have (a window of a larger array, a
        transposed array): same values, not C-contiguous."""
        lay = (spec or {}).get("layout", "c")
        if a is None or lay == "c" or a.ndim != 2:
            return None if a is None else a.copy()
        if lay == "transposed":
            return np.ascontiguousarray(a.T).T
        big = np.zeros((a.shape[0], 2 * a.shape[1]), dtype=a.dtype)
        view = big[:, ::2]
        view[...] = a
        return view

    def make_det():
        bf = cfg.get("bits_form", "int")
        bits_arg = np.int64(S.bits) if bf == "np" else (float(S.bits) if bf == "float" else S.bits)
        a0 = cfg.get("attr_0d") or []

        def form(key):
            # settings kept as 0-d numpy arrays (what np.asarray / an .npz file / a config loader hands over)
            return np.array(d[key]) if key in a0 else d[key]
        return D.Detector(dark_current=form("dark"), read_noise=form("read_noise"), bias=form("bias"), fwc=form("fwc"),
                          conversion_gain=form("gain"), bits=bits_arg, exposure_time=form("t"),
                          prnu=laid_out(S.prnu, d["prnu"]), dcnu=laid_out(S.dcnu, d["dcnu"]), lut=lut_for())

    def lut_for():
        if not d.get("lut") or S.bits > 12:
            return None
        return np.arange(2 ** S.bits, dtype=np.uint8 if S.bits <= 8 else np.uint16)

    events, violations = [], []
    faults, probes = {}, {}
    trans = set()
    fired = set()

    def bump(dd, k, c=1):
        dd[k] = dd.get(k, 0) + c

    def viol(oracle, stage, **kw):
        key = (oracle, stage, kw.get("exc", ""))
        if key in fired:
            return
        fired.add(key)
        v = {"oracle": oracle, "stage": stage}
        v.update(kw)
        violations.append(v)

    # closed-form noise-free signal (pre-quantisation)
    def ideal(image, prnu_on_dark=True):
        e = np.asarray(image).astype(np.float64) * d["t"]
        dk = d["dark"] * d["t"]
        if S.dcnu is not None:
            dk = dk * S.dcnu
        if S.prnu is not None and not prnu_on_dark:
            e = e * S.prnu + dk               # the other defensible reading: response map on the photo signal only
        else:
            e = e + dk
            if S.prnu is not None:
                e = e * S.prnu
        x = np.minimum(e + d["bias"], d["fwc"])
        return x / d["gain"]

    def note_regime():
        pre = ideal(img)
        S.pre = pre
        if np.any(pre >= S.cap + 1):
            bump(faults, "saturate_adc")
        if np.any(img * d["t"] + d["bias"] > d["fwc"]):
            bump(faults, "saturate_fwc")
        if d["t"] == 0:
            bump(faults, "zero_exposure")
        if S.prnu is not None or S.dcnu is not None:
            bump(faults, "nonuniform_maps")
        for lvl, nm in ((S.cap, "c_eq_cap"), (S.cap + 1, "c_eq_cap_plus_1"), (S.cap + 2, "c_eq_cap_plus_2")):
            if np.any(np.floor(pre) == lvl):
                bump(probes, nm)
        bump(probes, f"bits_{S.bits}" if S.bits in (1, 8, 16, 32) else "bits_other")
        if 1 in img.shape:
            bump(probes, "line_sensor_image")

    note_regime()

    shared = {"det": None}
    seam_lost = {"v": False}
    kept_frames = []

    def expose(image, coupled):
        sim.begin_exposure(coupled_to_previous=coupled)
        if cfg.get("reuse_detector"):
            if shared["det"] is None:
                shared["det"] = make_det()
            det = shared["det"]
        else:
            det = make_det()
        # the caller's own array is handed over (no defensive copy), as user code does
        held = image.copy()
        fr = d["frames"]
        if cfg.get("frames_np"):
            fr = np.int64(fr)              # the frame count as a numpy integer
        out = det.expose(image, frames=fr)
        if not (image.shape == held.shape and image.dtype == held.dtype and np.array_equal(image, held)):
            viol("input-mutated", "expose", what="the aerial image passed to expose() was modified in place")
            image[...] = held
        # frames handed out earlier belong to the caller: a later exposure must not change them
        for arr, cp in kept_frames:
            if not np.array_equal(np.asarray(arr), cp):
                viol("result-mutated", "expose", what="a frame returned by an earlier exposure changed during a later one")
                break
        if len(kept_frames) < 4:
            try:
                kept_frames.append((out, np.array(out, copy=True)))
            except Exception:
                pass
        return out

    def check_frame(dn, image, stage):
        """range, dtype, shape; exactness when the noise is off."""
        dn = np.asarray(dn)
        want_shape = (d["frames"], m, n) if d["frames"] > 1 else (m, n)
        if tuple(dn.shape) != want_shape:
            viol("dn-shape", stage, got=list(dn.shape), want=list(want_shape))
            return False
        if not np.issubdtype(dn.dtype, np.integer):
            viol("dn-dtype", stage, dtype=str(dn.dtype))
            return False
        lo, hi = int(dn.min()), int(dn.max())
        if lo < 0 or hi > S.cap:
            viol("dn-range", stage, min=lo, max=hi, cap=S.cap, bits=S.bits)
        # far beyond full well the noise does not matter: the pixel sits at the full-well level (or the
        # ADC ceiling), exactly.  Lower bound of the noisy pre-clip signal, 45 sigma below the mean:
        if sim.total_calls > 0 and not (S.prnu is not None and d["dark"] != 0):
            e = np.asarray(image).astype(np.float64) * d["t"]
            dk = d["dark"] * d["t"]
            if S.dcnu is not None:
                dk = dk * S.dcnu
            lam = e + dk
            p = S.prnu if S.prnu is not None else 1.0
            low = p * (lam - 45.0 * np.sqrt(lam)) - 45.0 * d["read_noise"] + d["bias"]
            fw = np.broadcast_to(low > d["fwc"] * (1 + 1e-6) + 1.0, dn.shape)
            if bool(np.any(fw)):
                lvl = d["fwc"] / d["gain"]
                if image.dtype == np.float32 or lowp or not (abs(lvl) < 2 ** 52):
                    pass
                else:
                    want_lo, want_hi = min(math.floor(lvl * (1 - 1e-12)), S.cap), min(math.ceil(lvl * (1 + 1e-12)), S.cap)
                    dd = dn.astype(np.float64)[fw]
                    # floor (truncation) or nearest are both "the clipped, gain-scaled signal"
                    if bool(np.any((dd < want_lo) | (dd > want_hi))):
                        j = int(np.argmax((dd < want_lo) | (dd > want_hi)))
                        viol("dn-fullwell", stage, got=float(dd[j]), want=[float(want_lo), float(want_hi)],
                             fwc=d["fwc"], gain=d["gain"])
                bump(probes, "fullwell_pixels_checked")
        if mode == "off" and sim.total_calls > 0:
            # with a response map AND dark charge the statement does not say whether the map scales the dark
            # charge too (the code does, the physics does not): either reading is accepted, as a whole frame
            readings = [ideal(image)]
            if S.prnu is not None and d["dark"] != 0:
                readings.append(ideal(image, prnu_on_dark=False))
            dnf = dn.astype(np.float64)
            f32 = image.dtype == np.float32 or lowp
            fails = []
            for raw_r in readings:
                c = np.clip(raw_r, 0, S.cap)
                c = np.broadcast_to(c, dn.shape)
                err = np.abs(dnf - c)
                tol = 1.0 + (4e-7 if f32 else 1e-9) * np.maximum(1.0, np.abs(c))
                if plan["img"]["exact"] and not (f32 and float(np.abs(image).max()) >= 2 ** 24) and not (
                        lowp and float(np.abs(c).max()) >= 2 ** 24):
                    # every operation is exact in binary floating point: floor or round, nothing else
                    okx = (dnf == np.floor(c)) | (dnf == np.rint(c))
                    if not bool(np.all(okx)):
                        j = int(np.argmax(~okx))
                        fails.append(dict(got=float(dnf.ravel()[j]), want=float(c.ravel()[j]), exact=True))
                elif not bool(np.all(err < tol)):
                    j = int(np.argmax(err))
                    fails.append(dict(got=float(dnf.ravel()[j]), want=float(c.ravel()[j])))
            if len(fails) == len(readings):
                viol("dn-exact", stage, **fails[0])
            raws = [np.broadcast_to(r, dn.shape) for r in readings]
            sat = np.logical_and.reduce([r >= (S.cap + 1) * (1 + (1e-6 if f32 else 0.0)) for r in raws])
            if bool(np.any(sat & (dnf != S.cap))):
                j = int(np.argmax(sat & (dnf != S.cap)))
                viol("dn-saturated", stage, got=float(dnf.ravel()[j]), want=float(S.cap))
            neg = np.logical_and.reduce([r <= -1 for r in raws])
            if bool(np.any(neg & (dnf != 0))):
                viol("dn-exact", stage, note="negative pre-ADC signal must read 0")
        return True

    dn1 = None
    frame_f = None
    reconfigured = False
    ATTR = {"t": "exposure_time", "dark": "dark_current", "gain": "conversion_gain", "bias": "bias", "fwc": "fwc",
            "bits": "bits"}
    for i, op in enumerate(plan["ops"]):
        k = op["op"]
        ev = {"i": i, "op": k}
        if k == "reconf":
            for key, val in op["set"].items():
                if key in ("prnu_scale", "dcnu_scale"):
                    d[key + "_acc"] = d.get(key + "_acc", 1.0) * val
                else:
                    d[key] = val
                    if key in ("prnu", "dcnu"):
                        d.pop(key + "_scale_acc", None)
            refresh()
            det = shared["det"]
            if det is not None:
                # the user changes public attributes of the existing Detector object
                for key in op["set"]:
                    if key == "prnu_scale" and det.prnu is not None:
                        det.prnu *= op["set"][key]            # the installed map, edited in place
                        bump(faults, "installed_map_edited_in_place")
                    elif key == "dcnu_scale" and det.dcnu is not None:
                        det.dcnu *= op["set"][key]
                        bump(faults, "installed_map_edited_in_place")
                    elif key == "bits":
                        setattr(det, "bits", d["bits"])
                        det.lut = lut_for()
                    elif key in ATTR:
                        setattr(det, ATTR[key], d[key])
                    elif key == "dcnu":
                        det.dcnu = laid_out(S.dcnu, d["dcnu"])
                    elif key == "prnu":
                        det.prnu = laid_out(S.prnu, d["prnu"])
                bump(faults, "detector_reconfigured_in_place")
            else:
                bump(faults, "detector_reconfigured_fresh")
            note_regime()
            dn1 = None
            frame_f = None
            reconfigured = True
            ev["out"] = "ok"
            ev["set"] = sorted(op["set"])
        elif k == "decoy":
            g = np.random.Generator(np.random.PCG64(op["bits"] * 1000 + op["shape"][0]))
            other = D.Detector(dark_current=3.0, read_noise=2.0, bias=20.0, fwc=5e4, conversion_gain=op["gain"],
                               bits=op["bits"], exposure_time=0.7, prnu=None, dcnu=None)
            keep_calls, keep_exp = sim.calls, sim.exposure
            try:
                other.expose(g.random(tuple(op["shape"])) * 1e3, frames=2)
                if op["poison"]:
                    try:
                        other.expose(-np.ones(tuple(op["shape"])), frames=1)      # invalid: negative flux
                    except Exception:
                        pass
                    if shared["det"] is not None:
                        try:
                            shared["det"].expose(np.ones((2, 2, 2, 2)) * -1.0)      # invalid for the shared one too
                        except Exception:
                            pass
                ev["out"] = "ok"
            except Exception as e:
                ev["out"] = "raised:" + type(e).__name__
            sim.calls, sim.exposure = keep_calls, keep_exp      # the decoy's draws do not shift the run's draws
            bump(faults, "decoy_detector_used")
        elif k == "expose":
            try:
                dn1 = expose(img, False)
            except Exception as e:
                ev["out"] = "raised:" + type(e).__name__
                if cfg.get("bits_form") == "float" and isinstance(e, (TypeError, ValueError)):
                    # a bit depth is an integer quantity: 8.0 may be refused cleanly (what is accepted must be right)
                    bump(probes, "float_bit_depth_refused")
                elif (d.get("dcnu") or {}).get("shape") and isinstance(e, (TypeError, ValueError)):
                    # the maps are documented as image-shaped ("ones_like is perfectly uniform"): a per-row or
                    # per-column map works by broadcasting today and may be refused cleanly
                    bump(probes, "reduced_dark_map_refused")
                else:
                    viol("raised", "expose", exc=type(e).__name__, msg=str(e)[:160],
                         prnu=S.prnu is not None, dcnu=S.dcnu is not None)
                dn1 = None
                events.append(ev)
                continue
            ok = check_frame(dn1, img, "expose")
            dn1 = np.asarray(dn1)
            ev["out"] = "ok"
            ev["rng_calls"] = sim.calls
            if sim.total_calls == 0 and (d["read_noise"] > 0 or float(img.max()) * d["t"] > 0):
                # the exposure never asked the simulated source for a draw: the noise
                # came from somewhere the simulator does not own, frames are not replayable
                bump(probes, "rng_seam_bypassed")
                seam_lost["v"] = True
            ev["fp"] = "unseeded" if seam_lost["v"] else core.fp_array(dn1)
            if ok:
                frame_f = dn1.astype(np.float64)
        elif k == "again":
            if dn1 is None:
                ev["out"] = "skip"
                events.append(ev)
                continue
            try:
                dn3 = np.asarray(expose(img, True))
            except Exception as e:
                ev["out"] = "raised:" + type(e).__name__
                viol("raised", "again", exc=type(e).__name__, msg=str(e)[:160])
                events.append(ev)
                continue
            ev["out"] = "ok"
            ev["fp"] = "unseeded" if seam_lost["v"] else core.fp_array(dn3)
            check_frame(dn3, img, "again")
            if mode in ("off", "coupled", "tails") and sim.total_calls > 0:
                if dn3.shape != dn1.shape or not np.array_equal(dn3, dn1):
                    viol("dn-repeatable", "again", note="same image, same draws, same detector: different frame",
                         reuse=bool(cfg.get("reuse_detector")))
                bump(probes, "repeat_exposures_compared")
        elif k == "turned":
            if dn1 is None or S.prnu is not None or S.dcnu is not None or m == n:
                ev["out"] = "skip"
                events.append(ev)
                continue
            img_t = np.ascontiguousarray(img.T)
            try:
                dn_t = np.asarray(expose(img_t, True))
            except Exception as e:
                ev["out"] = "raised:" + type(e).__name__
                viol("raised", "turned", exc=type(e).__name__, msg=str(e)[:160])
                events.append(ev)
                continue
            ev["out"] = "ok"
            want_shape = (d["frames"], n, m) if d["frames"] > 1 else (n, m)
            if tuple(dn_t.shape) != want_shape:
                viol("dn-shape", "turned", got=list(dn_t.shape), want=list(want_shape))
            elif mode == "off" and sim.total_calls > 0:
                # noise off: the exposure of the turned image is the turned exposure, sample for sample
                if not np.array_equal(dn_t, np.swapaxes(dn1, -1, -2)):
                    viol("dn-exact", "turned", note="the turned image does not give the turned frame")
            bump(probes, "same_detector_other_image_shape")
        elif k == "brighter":
            if dn1 is None:
                ev["out"] = "skip"
                events.append(ev)
                continue
            g = np.random.Generator(np.random.PCG64(op["seed"]))
            u = g.random((m, n))
            kind = op["kind"]
            base = max(float(img.max()), 1.0)
            if kind == "uniform":
                inc = u * base * 0.5
            elif kind == "sparse":
                inc = np.where(u < 0.2, base * 2, 0.0)
            elif kind == "cross":
                lvl = min(plan["img"]["fwc_level"], plan["img"]["adc_level"])
                inc = np.where(u < 0.5, np.maximum(lvl * 1.5 - img, 0.0), 0.0)
            elif kind == "tiny":
                inc = u * 1e-3
            else:
                inc = u * base * 1e4
            if plan["img"]["exact"]:
                inc = np.rint(inc)
            img2 = (img.astype(np.float64) + np.maximum(inc, 0.0))
            if img.dtype == np.int64:
                img2 = np.minimum(np.rint(img2), 9e15).astype(np.int64)
            elif img.dtype == np.float32:
                img2 = np.maximum(img2.astype(np.float32), img)      # rounding must not make it dimmer
            try:
                dn2 = np.asarray(expose(img2, True))
            except Exception as e:
                ev["out"] = "raised:" + type(e).__name__
                viol("raised", "brighter", exc=type(e).__name__, msg=str(e)[:160])
                events.append(ev)
                continue
            ev["out"] = "ok"
            ev["fp"] = "unseeded" if seam_lost["v"] else core.fp_array(dn2)
            check_frame(dn2, img2, "brighter")
            if mode in ("off", "coupled", "tails") and sim.total_calls > 0 and dn2.shape == dn1.shape:
                a1 = dn1.astype(np.int64)
                a2 = dn2.astype(np.int64)
                if bool(np.any(a2 < a1)):
                    j = int(np.argmax(a2 < a1))
                    viol("dn-monotone", "brighter", darker=int(a2.ravel()[j]), was=int(a1.ravel()[j]),
                         cap=S.cap, bits=S.bits)
                bump(probes, "monotone_pairs_compared")
        elif k == "bin":
            if frame_f is None:
                ev["out"] = "skip"
                events.append(ev)
                continue
            src = op.get("src", "float")
            base = frame_f if src == "float" else (dn1 if src == "dn" else (dn1 > np.median(dn1)))
            x = base if (op["stack"] or base.ndim == 2) else base[0]
            nd = op.get("nd", "asis")
            if nd == "1d":
                x = np.ascontiguousarray(x).reshape(-1)              # a 1-D signal
            elif nd == "4d" and x.ndim <= 3:
                x = np.ascontiguousarray(x).reshape((1,) * (4 - x.ndim) + x.shape)   # a 4-D stack
            bump(probes, f"bin_src_{src}")
            bump(probes, f"bin_ndim_{x.ndim}")
            if op["seed"] % 5 == 0:
                x = np.asfortranarray(x)                      # another memory layout, same samples
                bump(probes, "bin_fortran_input")
            elif op["seed"] % 5 == 1 and x.ndim == 2:
                big = np.zeros((x.shape[0] * 2, x.shape[1] * 2), dtype=x.dtype)
                big[::2, ::2] = x
                x = big[::2, ::2]
                bump(probes, "bin_strided_input")
            g = np.random.Generator(np.random.PCG64(op["seed"]))
            fac = _factors(g, x.shape, op["scalar"])
            _bin_tile(np, D, x, fac, op["mode"], g, viol, bump, probes)
            ev["out"] = "ok"
            ev["factor"] = fac
        elif k == "bayer":
            if frame_f is None:
                ev["out"] = "skip"
                events.append(ev)
                continue
            mos = frame_f if frame_f.ndim == 2 else frame_f[0]
            mos = mos[: 2 * (mos.shape[0] // 2), : 2 * (mos.shape[1] // 2)]
            if mos.size == 0:
                ev["out"] = "skip"
                events.append(ev)
                continue
            if op.get("signed"):
                mos = mos - np.floor(mos.mean()) - 3.0          # pedestal-subtracted raw data: negative samples
                if op["as_int"]:
                    mos = np.clip(mos, -30000, 30000).astype(np.int32)
                bump(probes, "bayer_signed_mosaic")
            elif op["as_int"]:
                mos = np.minimum(mos, 65535).astype(np.uint16)
            mos = mos.copy()
            if (mos.shape[0] + mos.shape[1]) % 3 == 0:
                mos = np.asfortranarray(mos)
                bump(probes, "bayer_fortran_input")
            sp = op.get("spelling", "lower")
            name = op["cfa"].upper() if sp == "upper" else (op["cfa"].title() if sp == "title" else op["cfa"])
            _bayer(np, B, mos, op["cfa"], viol, bump, probes, name)
            ev["out"] = "ok"
        else:
            raise RuntimeError(f"unknown op {k}")
        events.append(ev)
        regime = "adc" if np.any(S.pre >= S.cap) else ("fwc" if np.any(img * d["t"] + d["bias"] > d["fwc"]) else "lin")
        trans.add(f"{'b8' if S.bits <= 8 else 'b16' if S.bits <= 16 else 'b32'}|{mode}|{regime}|{k}|{ev.get('out', '')[:10]}"
                  f"|{'reconf' if reconfigured else ''}")

    if mode == "tails":
        bump(faults, "rng_tail_high", sim.tail_hi)
        bump(faults, "rng_tail_low", sim.tail_lo)
    bump(faults, f"rng_mode_{mode}")
    nontrivial = dn1 is not None and any(e["op"] != "expose" and e.get("out") == "ok" for e in events)
    return {"events": events, "violations": violations[:20], "faults": faults, "probes": probes,
            "trans": sorted(trans), "nontrivial": nontrivial,
            "extra": {"rng_calls": sim.total_calls}}


def _block_reduce(np, x, fac, how):
    """Independent block reduction by explicit slicing."""
    out_shape = tuple(s // f for s, f in zip(x.shape, fac))
    out = np.zeros(out_shape, dtype=np.float64)
    for idx in np.ndindex(*out_shape):
        slc = tuple(slice(i * f, (i + 1) * f) for i, f in zip(idx, fac))
        blk = np.asarray(x[slc]).astype(np.float64)     # exact for |values| < 2**53
        out[idx] = blk.sum() if how == "sum" else blk.mean()
    return out


def _bin_tile(np, D, x, fac, mode, g, viol, bump, probes):
    facs = [fac] * x.ndim if isinstance(fac, int) else list(fac)
    try:
        x0 = np.array(x, copy=True, order="K")
        b = np.asarray(D.bindown(x, fac if isinstance(fac, int) else list(fac), mode=mode))
        if not np.array_equal(x, x0):
            viol("input-mutated", "bindown", what="the array passed to bindown was modified in place")
            return
    except Exception as e:
        viol("raised", "bindown", exc=type(e).__name__, msg=str(e)[:120])
        return
    want = _block_reduce(np, x, facs, mode)
    sc = max(float(np.abs(want).max()), 1e-300)
    if b.shape != want.shape or not bool(np.all(np.abs(b.astype(np.float64) - want) <= 1e-12 * sc * max(1, np.prod(facs)))):
        viol("bin-" + mode, "bindown", factor=facs, shape=list(x.shape))
        return
    xs = float(np.asarray(x).astype(np.float64).sum())
    if mode == "sum" and not abs(float(np.asarray(b).astype(np.float64).sum()) - xs) <= 1e-11 * max(abs(xs), 1e-300):
        viol("bin-sum", "bindown", note="total not conserved")
    y = g.standard_normal(want.shape)
    y0 = y.copy()
    for scaling in ("sum", "avg"):
        try:
            t = np.asarray(D.tile(y, fac if isinstance(fac, int) else list(fac), scaling=scaling))   # the caller's own array
        except Exception as e:
            viol("raised", "tile", exc=type(e).__name__, msg=str(e)[:120])
            return
        if not np.array_equal(y, y0):
            viol("input-mutated", "tile", what="the array passed to tile was modified in place", scaling=scaling)
            y[...] = y0
        if t.shape != x.shape:
            viol("tile-" + scaling, "tile", got=list(t.shape), want=list(x.shape))
            return
        back = _block_reduce(np, t, facs, "sum" if scaling == "sum" else "avg")
        scy = max(float(np.abs(y).max()), 1e-300)
        if not bool(np.all(np.abs(back - y) <= 1e-12 * scy * max(1, np.prod(facs)))):
            viol("tile-" + scaling, "tile", factor=facs)
            return
        # within a block every sample is the same level
        lvl = _block_reduce(np, t, facs, "avg")
        rep = t - np.asarray(_expand(np, lvl, facs))
        if not bool(np.all(np.abs(rep) <= 1e-12 * scy)):
            viol("tile-" + scaling, "tile", note="not constant within a block")
            return
    # adjointness: <bin_sum x, y> = <x, tile_avg y>, <bin_avg x, y> = <x, tile_sum y>
    bs = np.asarray(D.bindown(x, fac if isinstance(fac, int) else list(fac), mode="sum"))
    ba = np.asarray(D.bindown(x, fac if isinstance(fac, int) else list(fac), mode="avg"))
    ta = np.asarray(D.tile(y.copy(), fac if isinstance(fac, int) else list(fac), scaling="avg"))
    ts = np.asarray(D.tile(y.copy(), fac if isinstance(fac, int) else list(fac), scaling="sum"))
    xf = np.asarray(x).astype(np.float64)
    for nm, lhs, rhs in (("sum-avg", float((bs.astype(np.float64) * y).sum()), float((xf * ta).sum())),
                         ("avg-sum", float((ba.astype(np.float64) * y).sum()), float((xf * ts).sum()))):
        mag = float(np.abs(xf).sum()) * float(np.abs(y).max()) + 1e-300
        if not abs(lhs - rhs) <= 1e-11 * mag:
            viol("bin-tile-adjoint", "bindown/tile", pair=nm, lhs=lhs, rhs=rhs)
    # the other spellings of the average mode that the code accepts ('average', 'mean'): a routine may reject
    # them cleanly, but what it returns under them must be the average-mode answer
    for syn in ("average", "mean"):
        try:
            t2 = np.asarray(D.tile(y.copy(), fac if isinstance(fac, int) else list(fac), scaling=syn))
            if t2.shape != ta.shape or not np.array_equal(t2, ta):
                viol("tile-avg", "tile", note="scaling=%r differs from scaling='avg'" % syn)
        except Exception:
            pass
        try:
            b2 = np.asarray(D.bindown(x, fac if isinstance(fac, int) else list(fac), mode=syn))
            if b2.shape != ba.shape or not np.array_equal(b2, ba):
                viol("bin-avg", "bindown", note="mode=%r differs from mode='avg'" % syn)
        except Exception:
            pass
    # the level is conserved in average mode for narrow float types too (the sum of a block of float16 samples
    # may exceed what a float16 holds - the average does not)
    if g.random() < 0.35:
        lvl16 = (3000.0 + 8.0 * g.standard_normal((12, 12))).astype(np.float16)
        for f16 in ((6, 6), (4, 6), (12, 12), (6, 4)):
            try:
                a16 = np.asarray(D.bindown(lvl16, list(f16), mode="avg")).astype(np.float64)
            except Exception as e:
                viol("raised", "bindown", exc=type(e).__name__, msg=str(e)[:120], note="float16 input")
                break
            want16 = _block_reduce(np, lvl16.astype(np.float64), list(f16), "avg")
            if a16.shape != want16.shape or not bool(np.all(np.abs(a16 - want16) <= 4e-3 * np.abs(want16))):
                viol("bin-avg", "bindown", note="float16 input: the level is not conserved", factor=list(f16))
                break
        bump(probes, "bin_float16_level_checked")
    bump(probes, "bin_tile_checked")
    if x.ndim == 3:
        bump(probes, "bin_nd_stack")


def _expand(np, a, facs):
    for ax, f in enumerate(facs):
        a = np.repeat(a, f, axis=ax)
    return a


_SITES = {
    "rggb": {"r": (0, 0), "g1": (0, 1), "g2": (1, 0), "b": (1, 1)},
    "bggr": {"b": (0, 0), "g1": (0, 1), "g2": (1, 0), "r": (1, 1)},
}


def _site(a, rc):
    return a[rc[0]::2, rc[1]::2]


def _bayer(np, B, mos, cfa, viol, bump, probes, name=None):
    S = _SITES[cfa]
    name = name or cfa
    if name != cfa:
        # the layout spelled with capitals: each routine may reject it cleanly, but what it returns must be right
        bump(probes, "bayer_layout_spelled_with_capitals")
        try:
            r, g1, g2, b = B.decomposite_bayer(mos, name)
            for nm, pl in (("r", r), ("g1", g1), ("g2", g2), ("b", b)):
                if not np.array_equal(np.asarray(pl), _site(mos, S[nm])):
                    viol("bayer-native-sites", "decomposite", plane=nm, cfa=name)
        except Exception:
            pass
        try:
            de = np.asarray(B.demosaic_deinterlace(mos, name))
            if de.shape == (mos.shape[0] // 2, mos.shape[1] // 2, 3):
                if not np.array_equal(de[..., 0], _site(mos, S["r"]).astype(de.dtype)) or not np.array_equal(
                        de[..., 2], _site(mos, S["b"]).astype(de.dtype)):
                    viol("bayer-native-sites", "deinterlace", cfa=name)
        except Exception:
            pass
        try:
            mfx = mos.astype(np.float64)
            ml = np.asarray(B.demosaic_malvar(mfx.copy(), name))
            for ch, names in ((0, ("r",)), (1, ("g1", "g2")), (2, ("b",))):
                for nm in names:
                    if not np.array_equal(_site(ml[..., ch], S[nm]), _site(mfx, S[nm])):
                        viol("bayer-native-sites", "malvar", plane=nm, cfa=name)
        except Exception:
            pass
    try:
        r, g1, g2, b = B.decomposite_bayer(mos, cfa)
        for nm, pl in (("r", r), ("g1", g1), ("g2", g2), ("b", b)):
            if not np.array_equal(np.asarray(pl), _site(mos, S[nm])):
                viol("bayer-native-sites", "decomposite", plane=nm, cfa=cfa)
        rec = B.recomposite_bayer(np.asarray(r).copy(), np.asarray(g1).copy(), np.asarray(g2).copy(),
                                  np.asarray(b).copy(), cfa)
        if not np.array_equal(np.asarray(rec), mos):
            viol("bayer-roundtrip", "recomposite", cfa=cfa)
        # the planes exactly as decomposite returned them (views of the mosaic), recomposed in the OTHER
        # layout: every plane must land on that layout's sites
        other = "bggr" if cfa == "rggb" else "rggb"
        So = _SITES[other]
        keep_mos = mos.copy()
        rec_o = np.asarray(B.recomposite_bayer(r, g1, g2, b, other))
        for nm, pl in (("r", r), ("g1", g1), ("g2", g2), ("b", b)):
            if rec_o.shape != mos.shape or not np.array_equal(_site(rec_o, So[nm]), _site(keep_mos, S[nm])):
                viol("bayer-roundtrip", "recomposite-other-layout", plane=nm, cfa=other)
                break
        if not np.array_equal(mos, keep_mos):
            viol("input-mutated", "recomposite", what="the mosaic behind the planes was modified", cfa=other)
            mos[...] = keep_mos
        buf = np.zeros_like(mos)
        rec2 = B.recomposite_bayer(np.asarray(r).copy(), np.asarray(g1).copy(), np.asarray(g2).copy(),
                                   np.asarray(b).copy(), cfa, output=buf)
        if not (np.array_equal(np.asarray(rec2), mos) and np.array_equal(buf, mos)):
            viol("bayer-roundtrip", "recomposite-output-arg", cfa=cfa)
        if mos.dtype.kind in "iu":
            # the caller's buffer has another dtype (a float64 frame for integer planes): it is the buffer
            # that must be filled, exactly
            buf64 = np.full(mos.shape, -7.0)
            B.recomposite_bayer(np.asarray(r).copy(), np.asarray(g1).copy(), np.asarray(g2).copy(),
                                np.asarray(b).copy(), cfa, output=buf64)
            if not np.array_equal(buf64, mos.astype(np.float64)):
                viol("bayer-roundtrip", "recomposite-output-arg", cfa=cfa, note="output= buffer of another dtype not filled")
        keep_mos = mos.copy()
        de = np.asarray(B.demosaic_deinterlace(mos, cfa))
        if not np.array_equal(mos, keep_mos):
            viol("input-mutated", "deinterlace", what="the mosaic passed to demosaic_deinterlace was modified", cfa=cfa)
            mos[...] = keep_mos
        if de.shape != (mos.shape[0] // 2, mos.shape[1] // 2, 3):
            viol("bayer-native-sites", "deinterlace", note="shape", cfa=cfa)
        else:
            if not np.array_equal(de[..., 0], _site(mos, S["r"]).astype(de.dtype)):
                viol("bayer-native-sites", "deinterlace", plane="r", cfa=cfa)
            if not np.array_equal(de[..., 2], _site(mos, S["b"]).astype(de.dtype)):
                viol("bayer-native-sites", "deinterlace", plane="b", cfa=cfa)
        if mos.dtype.kind in "iu":
            mi = np.asarray(B.demosaic_malvar(mos.copy(), cfa))
            if mi.shape == (*mos.shape, 3):
                for ch, names in ((0, ("r",)), (1, ("g1", "g2")), (2, ("b",))):
                    for nm in names:
                        if not np.array_equal(_site(mi[..., ch], S[nm]), _site(mos, S[nm])):
                            viol("bayer-native-sites", "malvar-int", plane=nm, cfa=cfa)
        mf = mos.astype(np.float64)
        mine = mf.copy()                      # the caller's own float mosaic, handed over as it is
        mal = np.asarray(B.demosaic_malvar(mine, cfa))
        if not np.array_equal(mine, mf):
            viol("input-mutated", "malvar", what="the mosaic passed to demosaic_malvar was modified", cfa=cfa)
        if mal.shape != (*mos.shape, 3):
            viol("bayer-native-sites", "malvar", note="shape", cfa=cfa)
        else:
            for ch, names in ((0, ("r",)), (1, ("g1", "g2")), (2, ("b",))):
                for nm in names:
                    if not np.array_equal(_site(mal[..., ch], S[nm]), _site(mf, S[nm])):
                        viol("bayer-native-sites", "malvar", plane=nm, cfa=cfa)
            # composite four *different* full-resolution planes: every site must take the
            # sample of its own plane (r, g1 = top-right green, g2 = bottom-left green, b)
            gq = np.random.Generator(np.random.PCG64(int(mf.size) * 7919 + (0 if cfa == "rggb" else 1)))
            planes = {nm: (mf + gq.integers(1, 1000, mf.shape).astype(np.float64) * (j + 1))
                      for j, nm in enumerate(("r", "g1", "g2", "b"))}
            keep = {nm: planes[nm].copy() for nm in planes}
            other = "bggr" if cfa == "rggb" else "rggb"
            for variant, lay in (("return", cfa), ("output-arg", cfa), ("return", other), ("return", cfa)):
                SS = _SITES[lay]
                # the caller's own plane objects are handed over every time
                if variant == "return":
                    comp = np.asarray(B.composite_bayer(planes["r"], planes["g1"], planes["g2"], planes["b"], lay))
                else:
                    comp = np.full_like(mf, -1.0)
                    ret = B.composite_bayer(planes["r"], planes["g1"], planes["g2"], planes["b"], lay, output=comp)
                    if not np.array_equal(np.asarray(ret), comp):
                        viol("bayer-native-sites", "composite-output-arg", cfa=lay, note="return differs from output=")
                if any(not np.array_equal(planes[nm], keep[nm]) for nm in planes):
                    viol("input-mutated", "composite", cfa=lay,
                         what="a colour plane passed to composite_bayer was modified in place")
                    for nm in planes:
                        planes[nm][...] = keep[nm]
                if comp.shape != mf.shape:
                    viol("bayer-native-sites", "composite", note="shape", cfa=lay)
                    break
                for nm in ("r", "g1", "g2", "b"):
                    if not np.array_equal(_site(comp, SS[nm]), _site(keep[nm], SS[nm])):
                        viol("bayer-native-sites", "composite" if variant == "return" else "composite-output-arg",
                             plane=nm, cfa=lay)
        _wb(np, B, mos, cfa, viol, bump, probes)
        bump(probes, f"bayer_{cfa}")
    except Exception as e:
        viol("raised", "bayer", exc=type(e).__name__, msg=str(e)[:160], cfa=cfa)


def _wb(np, B, mos, cfa, viol, bump, probes):
    """White-balance prescaling (in place, by design) as far as the native-site clause reaches: unit gains
    leave every raw sample as it was; each gain lands on its own colour site in both layouts (one factor per
    site); a call whose saturation limiter engaged leaves nothing behind for the next call; the demosaicked
    planes carry the prescaled samples at their native sites.  How the limiter chooses its factor is not judged."""
    if not hasattr(B, "wb_prescale"):
        return
    S = _SITES[cfa]
    mf = np.abs(mos.astype(np.float64)) + 1.0          # a positive float mosaic
    top = float(mf.max())
    gains = {"r": 2.0, "g1": 0.5, "g2": 1.25, "b": 3.0}

    def unit(tag):
        a = mf.copy()
        B.wb_prescale(a, 1, 1, 1, 1, cfa)
        if not np.array_equal(a, mf):
            viol("bayer-native-sites", "wb-unit-gains" + tag, cfa=cfa)

    def gained(tag, **kw):
        a = mf.copy()
        B.wb_prescale(a, gains["r"], gains["g1"], gains["g2"], gains["b"], cfa, **kw)
        for nm in ("r", "g1", "g2", "b"):
            want = _site(mf, S[nm]) * gains[nm]
            if not bool(np.all(np.abs(_site(a, S[nm]) - want) <= 1e-12 * np.abs(want))):
                viol("bayer-native-sites", "wb-gain-site" + tag, plane=nm, cfa=cfa)
                break
        return a

    unit("")
    pre = gained("")
    gained("-safe-ample", safe=True, saturation=top * 10.0)      # nothing to limit: same answer
    for sat in (top / 2.0, [top / 3.0, top * 2.0, top / 1.5, top * 4.0]):
        for g4 in ((1, 1, 1, 1), (gains["r"], gains["g1"], gains["g2"], gains["b"])):
            b = mf.copy()
            B.wb_prescale(b, *g4, cfa, safe=True, saturation=sat)   # the limiter engages
            for nm in ("r", "g1", "g2", "b"):
                fac = _site(b, S[nm]) / _site(mf, S[nm])
                if float(fac.max() - fac.min()) > 1e-12 * float(abs(fac).max()):
                    viol("bayer-native-sites", "wb-safe-one-factor-per-site", plane=nm, cfa=cfa)
                    break
    # gains held by the caller as 0-d arrays, through a call whose limiter engages: they are the caller's
    g0 = {k: np.array(float(v)) for k, v in gains.items()}
    b = mf.copy()
    B.wb_prescale(b, g0["r"], g0["g1"], g0["g2"], g0["b"], cfa, safe=True, saturation=top / 2.0)
    if any(float(g0[k]) != float(gains[k]) for k in gains):
        viol("input-mutated", "wb-gains", what="a 0-d array gain passed to wb_prescale was modified in place", cfa=cfa)
    # ... and the calls above must not have left anything behind
    unit("-after-safe")
    gained("-after-safe")
    mal = np.asarray(B.demosaic_malvar(pre.copy(), cfa))
    if mal.shape == (*pre.shape, 3):
        for ch, names in ((0, ("r",)), (1, ("g1", "g2")), (2, ("b",))):
            for nm in names:
                if not np.array_equal(_site(mal[..., ch], S[nm]), _site(pre, S[nm])):
                    viol("bayer-native-sites", "malvar-after-wb", plane=nm, cfa=cfa)
    bump(probes, "white_balance_checked")


# ---------------------------------------------------------------------------

def signature(v):
    s = f"{v['oracle']}:{v['stage']}"
    if v.get("exc"):
        s += ":" + v["exc"]
    return s


def simplifiers(plan):
    d = plan["det"]
    for key, val in (("frames", 1), ("prnu", None), ("dcnu", None), ("dark", 0.0), ("read_noise", 0.0),
                     ("bias", 0.0), ("t", 1.0), ("gain", 1.0)):
        if d[key] != val:
            p = copy.deepcopy(plan)
            p["det"][key] = val
            yield p
    if plan["config"]["mode"] != "off":
        p = copy.deepcopy(plan)
        p["config"]["mode"] = "off"
        yield p
    for j in range(2):
        if plan["img"]["shape"][j] > 2:
            p = copy.deepcopy(plan)
            p["img"]["shape"][j] = max(2, plan["img"]["shape"][j] - 2)
            yield p
    for b2 in (8, 12):
        if d["bits"] > b2 and d["bits"] not in (8, 12):
            p = copy.deepcopy(plan)
            p["det"]["bits"] = b2
            yield p
    if plan["img"]["regime"] != "beyond":
        p = copy.deepcopy(plan)
        p["img"]["regime"] = "beyond"
        yield p


RULE = ("A run draws one detector configuration (bits 1..32, gain, bias, full well, dark current, exposure time, "
        "frames, optional image-shaped prnu/dcnu maps), one aerial image in a seeded regime (dark, mid-scale, around "
        "full well, around the ADC ceiling, far beyond both) and one mode of the simulator-owned random source "
        "(off, coupled common random numbers, adversarial tails, real seeded generator); it exposes, exposes a "
        "pixelwise brighter image under the same draws, and feeds the frames to bindown/tile and the Bayer routines. "
        "Non-trivial: the first exposure succeeded and at least one further stage was executed and judged. Distinct: "
        "distinct event-log digests (stages, outcomes, frame fingerprints).")

COMPONENTS = {
    "real": ["prysm.detector.Detector.expose", "prysm.detector.bindown / tile", "prysm.bayer (decomposite, recomposite, "
             "composite, demosaic_deinterlace, demosaic_malvar)", "numpy", "scipy.ndimage"],
    "stub": ["numpy.random as seen through prysm.mathops.np: sim SimRandom (modes off / coupled / tails; mode 'real' "
             "delegates to a seeded numpy RandomState)"],
}

EXPECTED_PROBES = ["repeat_exposures_compared", "c_eq_cap", "c_eq_cap_plus_1", "bits_1", "bits_8", "bits_16", "bits_32", "monotone_pairs_compared",
                   "bin_tile_checked", "bin_nd_stack", "bayer_rggb", "bayer_bggr"]
