"""C01 — one transform, whatever ran before.

History simulation of the process-global transform executors (prysm.fttools
mdft / czt) and the FFT route.  The simulator owns: the order of calls on the
shared executors, cache loss (clear()), global precision flips, the
"backend has no next_fast_len" fallback, polluter calls that share the caches
and poison calls that fail half way.  The oracle is a stateless textbook DFT
evaluated by the harness in extended precision, per call, plus a
history-independence check over the recorded history.
"""
import math

from sim import core
from sim.arrays import materialise, to_literal, spec_shape, spec_is32, spec_isint

PROP = "C01"

TOL64 = 1e-9
TOL32 = 2e-3

JUDGED = ("dft2", "idft2", "czt2", "iczt2", "ffs", "ufs", "focus", "unfocus")

# ---------------------------------------------------------------------------
# generation


def _rq(rng):
    """A real Q > 0."""
    c = rng.random()
    if c < 0.04:
        return rng.uniform(0.05, 0.3)
    if c < 0.08:
        return rng.uniform(4.0, 16.0)
    if c < 0.25:
        return rng.choice([1, 2, 1.0, 2.0, 0.5, 4, 3])
    if c < 0.5:
        return round(rng.uniform(0.3, 4.0), 3)
    return rng.uniform(0.3, 4.0)


def _rshift1(rng):
    c = rng.random()
    if c < 0.03:
        return rng.choice([-1, 1]) * rng.uniform(16, 300)      # far off-axis
    if c < 0.35:
        return 0
    if c < 0.4:
        return rng.choice([-1, 1]) * (rng.randint(0, 7) + 0.5)      # exactly half a sample
    if c < 0.47:
        return rng.choice([-1, -2, -1.0, -2.0, 1, 2])
    if c < 0.6:
        return rng.choice([-1, 1]) * rng.randint(1, 8)
    if c < 0.7:
        return float(rng.choice([-1, 1]) * rng.randint(1, 8))
    return rng.uniform(-8, 8)


def _rshift(rng):
    c = rng.random()
    if c < 0.3:
        return [0, 0]
    if c < 0.4:
        s = _rshift1(rng)
        return [s, s]
    return [_rshift1(rng), _rshift1(rng)]


def _rsize(rng, hi):
    c = rng.random()
    if c < 0.12:
        return 1
    if c < 0.25:
        return rng.choice([2, 3])
    return rng.randint(2, hi)


def _base_geom(rng, hi):
    m = _rsize(rng, hi)
    n = m if rng.random() < 0.45 else _rsize(rng, hi)
    c = rng.random()
    if c < 0.5:
        Q = _rq(rng)
    else:
        Q = [_rq(rng), _rq(rng)]
    if m != n and rng.random() < 0.08:
        q0 = float(_rq(rng))
        if n * (m * q0 / n) == m * q0:
            Q = [q0, m * q0 / n]        # rows and columns of different length with the same length*Q
    c = rng.random()
    if c < 0.25:
        out = _rsize(rng, hi)          # scalar: square output
    elif c < 0.45:
        out = [m, n]
    else:
        out = [_rsize(rng, hi), _rsize(rng, hi)]
    return {"in": [m, n], "Q": Q, "out": out, "shift": _rshift(rng)}


def _mutate_geom(rng, g, hi):
    """Derive a near-collision: change exactly one field."""
    g = {"in": list(g["in"]), "Q": g["Q"] if not isinstance(g["Q"], list) else list(g["Q"]),
         "out": g["out"] if not isinstance(g["out"], list) else list(g["out"]),
         "shift": list(g["shift"])}
    which = rng.choice(["shift", "shift", "Q", "Q", "out", "out", "in", "qtype", "swapio", "swapio", "same_product",
                        "same_product"])
    if which == "same_product":
        # another input length with the SAME product length*Q on an axis (10 samples at Q=1.5, 12 at 1.25):
        # identical output grid spacing, output size and shift, different input - whatever is keyed on the
        # product alone collides
        qy, qx = (float(g["Q"][0]), float(g["Q"][1])) if isinstance(g["Q"], list) else (float(g["Q"]), float(g["Q"]))
        m, n = g["in"]
        m2 = rng.choice([k for k in range(1, hi + 1) if k != m] or [m])
        n2 = rng.choice([k for k in range(1, hi + 1) if k != n] or [n]) if rng.random() < 0.5 else n
        qy2, qx2 = m * qy / m2, n * qx / n2
        if m2 * qy2 == m * qy and n2 * qx2 == n * qx:
            g["in"], g["Q"] = [m2, n2], [qy2, qx2]
        return g
    if which == "shift":
        c = rng.random()
        if c < 0.15:
            # the neighbouring sample: same everything, one component one sample further
            j = rng.randrange(2)
            g["shift"][j] = g["shift"][j] + rng.choice([-1, 1])
        elif c < 0.3:
            g["shift"] = [g["shift"][1], g["shift"][0]]
        elif c < 0.5:
            g["shift"] = [-g["shift"][0], -g["shift"][1]]
        elif c < 0.7:
            g["shift"] = [0, 0]
        else:
            g["shift"] = _rshift(rng)
    elif which == "Q":
        if isinstance(g["Q"], list) and rng.random() < 0.5:
            g["Q"] = [g["Q"][1], g["Q"][0]]
        elif isinstance(g["Q"], list):
            g["Q"] = g["Q"][0]
        elif rng.random() < 0.5:
            g["Q"] = [g["Q"], _rq(rng)]
        else:
            g["Q"] = _rq(rng)
    elif which == "qtype":
        q = g["Q"]
        if isinstance(q, list):
            g["Q"] = [float(q[0]), float(q[1])] if isinstance(q[0], int) else q
        elif isinstance(q, int):
            g["Q"] = float(q)
        elif float(q).is_integer():
            g["Q"] = int(q)
        else:
            g["Q"] = [q, q]
    elif which == "swapio":
        # the same transform pair seen from the other side: input and output sizes exchanged
        o = g["out"] if isinstance(g["out"], list) else [g["out"], g["out"]]
        g["out"], g["in"] = list(g["in"]), list(o)
    elif which == "out":
        o = g["out"]
        if isinstance(o, list):
            c = rng.random()
            if c < 0.35:
                g["out"] = [o[1], o[0]]
            elif c < 0.7:
                k = rng.randrange(2)
                o[k] = max(1, o[k] + rng.choice([-1, 1]))
                g["out"] = o
            else:
                g["out"] = o[0]
        else:
            g["out"] = [o, max(1, o + rng.choice([-1, 1]))] if rng.random() < 0.6 else [o, o]
    else:
        m, n = g["in"]
        if m != n and rng.random() < 0.6:
            g["in"] = [n, m]
        else:
            k = rng.randrange(2)
            g["in"][k] = max(1, g["in"][k] + rng.choice([-1, 1]))
    return g


_KINDS = ["c128", "c128", "c128", "c128", "f64", "f64", "f64", "f32", "f32", "c64", "c64", "i64", "impulse", "ramp",
          "impulse", "ramp", "i8", "i16", "u8", "bool"]


def _fft_Q(rng, m, n):
    """Q >= 1 such that m*Q and n*Q are exact integers (in floating point too)."""
    cands = []
    for P in range(m, 3 * m + 1):
        if (n * P) % m:
            continue
        Q = P / m
        if math.ceil(m * Q) == P and math.ceil(n * Q) == n * P // m:
            cands.append(Q)
    Q = rng.choice(cands)
    if float(Q).is_integer() and rng.random() < 0.5:
        Q = int(Q)
    return Q


def _fft_family(rng, hi):
    """Inputs that zero-pad to one common shape: [(m, n, Q), ...]."""
    for _ in range(50):
        Py = rng.randint(2, 2 * hi)
        Px = Py if rng.random() < 0.6 else rng.randint(2, 2 * hi)
        fam = []
        for m in range(1, min(Py, hi) + 1):
            if (Px * m) % Py:
                continue
            n = Px * m // Py
            if n < 1 or n > hi:
                continue
            Q = Py / m
            if math.ceil(m * Q) == Py and math.ceil(n * Q) == Px:
                fam.append((m, n, int(Q) if float(Q).is_integer() and rng.random() < 0.5 else Q))
        if len(fam) >= 2:
            rng.shuffle(fam)
            return fam[:rng.randint(2, min(4, len(fam)))]
    return []


def generate(rng, tier):
    hi = 12 if tier == "quick" else rng.choice([8, 12, 16, 24, 32])
    cfg = {
        # in a few runs the library modules are imported (again) under a precision chosen here, before the
        # run's own configuration is applied: "configure first, import later" is a legal order
        "reimport_under": rng.choice([32, 32, 64]) if core.rare(rng, 0.02, phase=5) else None,
        "fft_fallback": rng.random() < 0.15,
        "precision0": 64 if rng.random() < 0.8 else 32,
        # alias: the caller keeps using the same array / Wavefront / shift objects across calls
        # (what user code does); otherwise every call gets fresh copies
        "alias": rng.random() < 0.5,
    }
    if cfg["alias"] and rng.random() < 0.3:
        # a caller who builds the argument containers once and rewrites their contents for every call
        cfg["forms_all"] = {"Q": rng.choice(["list", "nparr", "plain"]), "out": rng.choice(["list", "plain"]),
                            "shift": rng.choice(["list", "nparr", "plain"])}
    # swarm: which op families are enabled in this run
    enabled = {
        "mdft": rng.random() < 0.8,
        "czt": rng.random() < 0.8,
        "phys": rng.random() < 0.5,
        "fft": rng.random() < 0.4,
        "clear": rng.random() < 0.6,
        "precision": rng.random() < 0.5,
        "pollute": rng.random() < 0.4,
        "poison": rng.random() < 0.25,
    }
    if not (enabled["mdft"] or enabled["czt"] or enabled["fft"] or enabled["phys"]):
        enabled["mdft"] = enabled["czt"] = True
    npool = rng.randint(2, 6) if (tier == "quick" or rng.random() < 0.9) else rng.randint(8, 30)
    pool = [_base_geom(rng, hi)]
    while len(pool) < npool:
        if rng.random() < 0.8:
            pool.append(_mutate_geom(rng, rng.choice(pool), hi))
        else:
            pool.append(_base_geom(rng, hi))
    if core.rare(rng, 0.004, phase=11):
        # one axis beyond a thousand samples (block / tile boundaries inside the executors), the others tiny
        L = rng.choice([1025, 1300, 1500, 2049, 2100, rng.randint(1025, 2200)])
        s1, s2, s3 = rng.randint(1, 6), rng.randint(1, 6), rng.randint(1, 6)
        lg = rng.choice([{"in": [s1, L], "out": [s2, s3]}, {"in": [s1, s2], "out": [L, s3]},
                         {"in": [s1, s2], "out": [s3, L]}, {"in": [s1, L], "out": [s2, L]}])
        lg.update({"Q": rng.choice([1, 1.0, 2, 1.5, _rq(rng)]), "shift": rng.choice([[0, 0], _rshift(rng)])})
        pool.append(lg)
        pool.append(dict(lg, Q=_rq(rng)))
    arrays = {}

    def arr_for(shape, want_new=False):
        names = [k for k, s in arrays.items() if spec_shape(s) == list(shape)]
        if names and not want_new and (len(names) >= 3 or rng.random() < 0.7):
            return rng.choice(names)
        name = f"a{len(arrays)}"
        arrays[name] = {"kind": rng.choice(_KINDS), "shape": list(shape),
                        "seed": rng.getrandbits(32),
                        # physical attributes of the plane this array lives in (Wavefront objects are
                        # built from them, so that the same object can be reused across calls)
                        "wvl": rng.uniform(0.4, 1.6), "dxp": rng.uniform(0.01, 2.0), "dxf": rng.uniform(0.5, 20.0)}
        return name

    ops = []
    nsteps = rng.randint(3, 25 if tier == "quick" else 40)
    if tier != "quick" and rng.random() < 0.1:
        nsteps = rng.randint(40, 90)          # long histories: caches grow past any small bound
    fft_family = _fft_family(rng, hi) if (enabled["fft"] and rng.random() < 0.6) else []
    weights = []
    if enabled["mdft"]:
        weights += [("dft2", 5), ("idft2", 4)]
    if enabled["czt"]:
        weights += [("czt2", 5), ("iczt2", 4)]
    if enabled["phys"]:
        weights += [("ffs", 2), ("ufs", 2), ("wf_chain", 1)]
    if enabled["fft"]:
        weights += [("focus", 2), ("unfocus", 2)]
    if enabled["clear"]:
        weights += [("clear", 2)]
    if enabled["precision"]:
        weights += [("precision", 2)]
    if cfg["alias"]:
        weights += [("edit", 2)]
    if enabled["pollute"]:
        weights += [("pollute", 2)]
    if enabled["poison"]:
        weights += [("poison", 1)]
    names = [w[0] for w in weights]
    wts = [w[1] for w in weights]
    last_judged = None
    judged_so_far = []
    for _ in range(nsteps):
        if last_judged is not None and rng.random() < 0.2:
            # repeat an earlier judged call verbatim (history-independence probe): A ... B ... A
            ops.append(dict(rng.choice(judged_so_far) if rng.random() < 0.5 else last_judged))
            continue
        kind = rng.choices(names, wts)[0]
        if kind in ("dft2", "idft2", "czt2", "iczt2"):
            g = rng.choice(pool)
            op = {"op": kind, "arr": arr_for(g["in"]), "Q": g["Q"], "out": g["out"], "shift": g["shift"]}
            c = rng.random()
            if c < 0.08 and op["shift"][0] == op["shift"][1]:
                op["shift"] = op["shift"][0]      # scalar shift form
            elif c < 0.16:
                op["shift"] = None                 # default argument
            if rng.random() < 0.12:
                # the same numbers in another legal container / numpy scalar type
                op["forms"] = {"Q": rng.choice(["plain", "np64", "np64", "list", "nparr", "np32", "np32"]),
                               "out": rng.choice(["plain", "npint", "npint", "list"]),
                               "shift": rng.choice(["plain", "npscalars", "list", "nparr"])}
            if op.get("forms", {}).get("Q") == "np32":
                # Q handed over as numpy float32 scalar(s): the call is judged for the VALUE passed, so the
                # plan's Q is rounded to what a float32 holds
                import struct
                r32 = lambda q: struct.unpack("f", struct.pack("f", float(q)))[0]
                op["Q"] = [r32(q) for q in op["Q"]] if isinstance(op["Q"], list) else r32(op["Q"])
            if op.get("forms", {}).get("shift") == "npscalars" and op["shift"] is not None and len(ops) % 2 == 1:
                # every other numpy-scalar shift is handed over as numpy float32 scalar(s) (no extra draw, so
                # the histories of all other seeds are unchanged); judged for the VALUE passed, like a float32 Q
                import struct
                s32 = lambda q: struct.unpack("f", struct.pack("f", float(q)))[0]
                op["forms"]["shift"] = "np32scalars"
                op["shift"] = [s32(x) for x in op["shift"]] if isinstance(op["shift"], list) else s32(op["shift"])
            if rng.random() < 0.12:
                # the same samples behind another memory layout
                op["view"] = rng.choice(["fortran", "negstride", "readonly", "strided"])
        elif kind in ("ffs", "ufs"):
            g = rng.choice(pool)
            m = g["in"][0]
            M = g["out"] if not isinstance(g["out"], list) else g["out"][0]
            nn = g["in"][1] if (kind == "ffs" and rng.random() < 0.3) else m      # non-square pupils: ffs only
            name = arr_for([m, nn])
            wvl = arrays[name]["wvl"]
            z = rng.uniform(10, 500)
            q = g["Q"] if not isinstance(g["Q"], list) else g["Q"][0]
            q = float(q)
            # ffs: input_dx is the pupil spacing (mm); ufs: the focal-plane spacing (um);
            # either way Q = wvl z / (m dx odx)
            dx = arrays[name]["dxp"] if kind == "ffs" else arrays[name]["dxf"]
            odx = wvl * z / (m * dx) / q
            rep = rng.random() < 0.25
            if rep:
                # round numbers (exact in single precision too): the same call may have been made earlier with
                # numpy float32 scalars
                wvl, z = rng.choice([0.5, 0.75, 1.0, 1.5]), rng.choice([64.0, 100.0, 250.0])
                dx = rng.choice([0.125, 0.25, 0.5, 1.0, 2.0])
                odx = rng.choice([0.5, 1.0, 2.0, 3.0, 4.0, 6.0]) * (1.0 if kind == "ffs" else 0.125)
                arrays[name]["wvl"] = wvl
                arrays[name]["dxp" if kind == "ffs" else "dxf"] = dx
            sh = g["shift"]
            op = {"op": kind, "arr": name, "dx": dx, "z": z, "wvl": wvl, "odx": odx,
                  "out": M if rng.random() < 0.5 else [M, M],
                  "shift": [sh[0] * odx, sh[1] * odx],
                  "method": rng.choice(["mdft", "czt"]), "wf": rng.random() < 0.5,
                  "shift_arr": rng.random() < 0.3}
            if rep:
                op["shift"] = [0.0, 0.0] if rng.random() < 0.5 else [odx * rng.randint(-3, 3), odx * rng.randint(-3, 3)]
                if rng.random() < 0.6:
                    ops.append({"op": "poison", "kind": "f32_scalars", "call": dict(op), "g": g, "seed": 0})
        elif kind in ("focus", "unfocus"):
            if fft_family and rng.random() < 0.8:
                m, n, fq = rng.choice(fft_family)
            else:
                g = rng.choice(pool)
                m, n = g["in"]
                fq = _fft_Q(rng, m, n)
            if rng.random() < 0.3:
                # a padding factor for which shape*Q is not an integer: the routine pads to ceil(shape*Q), and the
                # textbook sum on THAT grid (Q_eff = padded/shape per axis, unitary) is what must come back
                fq = rng.choice([1.1, 1.25, 1.3, 1.5, 1.7, 2.2, 2.5, round(rng.uniform(1, 3), 3),
                                 math.nextafter(1.0, 2.0), 1.0 + 1e-10])     # ... including a Q a few ulp above 1
            name = arr_for([m, n])
            op = {"op": kind, "arr": name, "Q": fq, "wf": rng.random() < 0.4,
                  "efl": rng.uniform(10, 500), "wvl": arrays[name]["wvl"],
                  "dx": arrays[name]["dxp"] if kind == "focus" else arrays[name]["dxf"]}
        elif kind == "wf_chain":
            g = rng.choice(pool)
            m = g["in"][0]
            M = g["out"] if not isinstance(g["out"], list) else g["out"][0]
            name = arr_for([m, m])
            q = float(g["Q"] if not isinstance(g["Q"], list) else g["Q"][0])
            wvl, dx, z = arrays[name]["wvl"], arrays[name]["dxp"], rng.uniform(10, 500)
            odx = wvl * z / (m * dx) / q
            op = {"op": "wf_chain", "arr": name, "dx": dx, "z": z, "wvl": wvl, "odx": odx, "out": M,
                  "shift": [odx * rng.randint(-3, 3), odx * rng.randint(-3, 3)],
                  "method": rng.choice(["mdft", "czt"])}
        elif kind == "edit":
            # the user changes one of their own arrays in place (a *= mask, a += ...) between transforms
            if not arrays:
                continue
            op = {"op": "edit", "arr": rng.choice(sorted(arrays)), "how": rng.choice(["scale", "negate", "mask", "add"]),
                  "seed": rng.getrandbits(32)}
        elif kind == "clear":
            op = {"op": "clear", "which": rng.choice(["mdft", "czt", "both"])}
        elif kind == "precision":
            op = {"op": "precision", "bits": rng.choice([32, 64])}
        elif kind == "pollute":
            g = rng.choice(pool)
            pk = rng.choice(["dft2_backprop", "idft2_backprop", "resample", "nbytes", "ffs_backprop",
                             "ufs_backprop", "wf_ffs_backprop", "q_scan", "pad_outshape"])
            op = {"op": "pollute", "kind": pk, "g": g, "seed": rng.getrandbits(32),
                  "zoom": rng.choice([0.5, 1.5, 2, 2.0, [1.5, 0.75]])}
            if pk == "resample" and isinstance(op["zoom"], (int, float)) and max(g["in"]) <= 64 and rng.random() < 0.7:
                zz = op["zoom"]
                gm, gn = g["in"]
                if int(gm * zz) >= 1 and int(gn * zz) >= 1:
                    ops.append(op)
                    rg = {"in": [gm, gn], "Q": zz, "out": [int(gm * zz), int(gn * zz)], "shift": [0, 0]}
                    pool.append(rg)
                    op = {"op": rng.choice(["idft2", "idft2", "dft2"]), "arr": arr_for(rg["in"]), "Q": rg["Q"],
                          "out": rg["out"], "shift": rng.choice([[0, 0], None])}
                    kind = op["op"]
            if pk == "q_scan":
                # somebody scans Q (a wavelength or defocus loop) on the same shapes: many more cached
                # geometries than any small bound, all of one shape
                op["count"] = rng.choice([66, 70, 130, 260]) if max(g["in"] + _norm_out_list(g["out"])) <= 64 else 3
                op["routes"] = rng.choice([["mdft"], ["czt"], ["mdft", "czt"]])
            elif pk == "pad_outshape":
                # somebody pads an array of a shape (and with a Q) that a padded-FFT propagation of this run
                # uses, but to an explicit out_shape
                if fft_family and rng.random() < 0.7:
                    pm, pn, pq = rng.choice(fft_family)
                else:
                    pm, pn = g["in"]
                    pq = rng.choice([2, 2, _fft_Q(rng, pm, pn)])
                op.update({"shape": [pm, pn], "Q": pq, "grow": [rng.randint(0, 5), rng.randint(0, 5)]})
                if pm * pn > 4096:
                    op["kind"] = "nbytes"
        else:
            g = rng.choice(pool)
            op = {"op": "poison", "kind": rng.choice(["list_samples", "int_fracshift", "bad_Q", "uint8_samples", "uint8_samples",
                                                     "f32_Q", "f32_Qpair", "f32_Qpair", "cube_everywhere", "cube_everywhere"]),
                  "g": g, "seed": rng.getrandbits(32)}
        if op.get("arr") in arrays and arrays[op["arr"]].get("kind") == "derived" and kind in ("ffs", "focus"):
            op["wf"] = True                      # arrays made by Wavefront.pad2d/crop live inside their Wavefront
        ops.append(op)
        if kind in JUDGED:
            last_judged = op
            judged_so_far.append(op)
        if cfg["alias"] and kind in ("ffs", "focus") and op.get("wf") and rng.random() < 0.25:
            # the user pads or crops the long-lived Wavefront in place, then keeps propagating it
            src = arrays[op["arr"]]
            sm, sn = spec_shape(src)
            if rng.random() < 0.6:
                eq = rng.choice([2, 2, 1.5, 3])
                new_shape = [math.ceil(sm * eq), math.ceil(sn * eq)]
                ed = {"op": "wf_edit", "arr": op["arr"], "how": "pad", "Q": eq}
            else:
                new_shape = [max(1, sm - rng.randint(0, 2)), max(1, sn - rng.randint(0, 2))]
                ed = {"op": "wf_edit", "arr": op["arr"], "how": "crop", "shape": new_shape}
            if max(new_shape) <= 40:
                newname = f"a{len(arrays)}"
                arrays[newname] = {"kind": "derived", "shape": new_shape, "seed": 0, "wvl": src["wvl"],
                                   "dxp": src["dxp"], "dxf": src["dxf"]}
                ed.update({"new": newname, "wvl": op["wvl"], "dx": op["dx"]})
                ops.append(ed)
                # and uses the result right away
                m2 = new_shape[0]
                if new_shape[0] == new_shape[1] or rng.random() < 0.5:
                    q2 = _rq(rng)
                    z2 = rng.uniform(10, 500)
                    odx2 = op["wvl"] * z2 / (m2 * op["dx"]) / float(q2)
                    ops.append({"op": "ffs", "arr": newname, "dx": op["dx"], "z": z2, "wvl": op["wvl"], "odx": odx2,
                                "out": rng.randint(1, 12), "shift": [0.0, 0.0], "method": rng.choice(["mdft", "czt"]),
                                "wf": True, "shift_arr": False})
    return {"prop": PROP, "tier": tier, "config": cfg, "arrays": arrays, "ops": ops}


# ---------------------------------------------------------------------------
# reference model (stateless, harness-owned, independent of prysm)


def _norm_q(Q):
    if isinstance(Q, (list, tuple)):
        return float(Q[0]), float(Q[1])
    return float(Q), float(Q)


def _norm_out_list(out):
    return list(out) if isinstance(out, (list, tuple)) else [out, out]


def _norm_out(out):
    if isinstance(out, (list, tuple)):
        return int(out[0]), int(out[1])
    return int(out), int(out)


def _norm_shift(s):
    if s is None:
        return 0.0, 0.0
    if isinstance(s, (list, tuple)):
        return float(s[0]), float(s[1])
    return float(s), float(s)


def ref_dft(np, f, Q, out, shift, fwd):
    """Textbook 2-D DFT on the grid that (Q, out, shift) define.

    ref[v,u] = (m Qy n Qx)^-1/2 sum_yx f[y,x] exp(-/+ 2 pi i [(y-m//2)(v-M//2-sy)/(m Qy)
                                                        + (x-n//2)(u-N//2-sx)/(n Qx)])
    The sum is separable, so it is evaluated as two dense products; phases are
    reduced modulo one turn in extended precision before the exponential.
    """
    m, n = f.shape
    M, N = out
    Qy, Qx = Q
    sx, sy = shift
    ld = np.longdouble
    y = np.arange(m, dtype=ld) - (m // 2)
    x = np.arange(n, dtype=ld) - (n // 2)
    v = np.arange(M, dtype=ld) - (M // 2) - ld(sy)
    u = np.arange(N, dtype=ld) - (N // 2) - ld(sx)
    py = np.outer(v, y) / (ld(m) * ld(Qy))
    px = np.outer(x, u) / (ld(n) * ld(Qx))
    py = (py - np.rint(py)).astype(np.float64)
    px = (px - np.rint(px)).astype(np.float64)
    sgn = -1.0 if fwd else 1.0
    Ey = np.exp(sgn * 2j * np.pi * py)
    Ex = np.exp(sgn * 2j * np.pi * px)
    fc = np.asarray(f).astype(np.complex128)
    return (Ey @ fc @ Ex) / math.sqrt(m * Qy * n * Qx)


# ---------------------------------------------------------------------------
# execution (runs in a forked child)


class _FFTNoFastLen:
    """A legal FFT backend that lacks next_fast_len (prysm documents a
    power-of-two fallback for that case)."""

    def __init__(self, real):
        self._real = real

    def __getattr__(self, key):
        if key in ("next_fast_len",):
            raise AttributeError(key)
        return getattr(self._real, key)


def _cache_keys(ft):
    try:
        return (set(ft.mdft.Ein.keys()), set(ft.czt.components.keys()))
    except Exception:
        return None


def execute(plan):
    core.import_prysm()
    import warnings
    import numpy as np
    from prysm import fttools as ft, propagation as pr
    from prysm.conf import config
    from prysm import mathops

    cfg = plan["config"]
    events, violations = [], []
    faults, probes = {}, {}
    trans = set()
    # an argument handed over as numpy float32 scalar(s) is judged for the VALUE passed: whatever the
    # generator or the shrinker put in the plan is first rounded to what a float32 holds (idempotent),
    # so a shrunk candidate such as round(Q, 1) cannot make reference and call disagree on the argument
    import struct
    r32 = lambda q: q if q is None else struct.unpack("f", struct.pack("f", float(q)))[0]
    for op in plan["ops"]:
        fm = op.get("forms") or {}
        if fm.get("Q") == "np32" and "Q" in op:
            op["Q"] = [r32(q) for q in op["Q"]] if isinstance(op["Q"], list) else r32(op["Q"])
        if fm.get("shift") == "np32scalars" and op.get("shift") is not None:
            op["shift"] = [r32(x) for x in op["shift"]] if isinstance(op["shift"], list) else r32(op["shift"])

    def bump(d, k, n=1):
        d[k] = d.get(k, 0) + n

    if cfg.get("reimport_under"):
        import importlib
        config.precision = cfg["reimport_under"]
        ft = importlib.reload(ft)
        pr = importlib.reload(pr)
        bump(faults, "modules_imported_under_other_precision")
    if cfg.get("fft_fallback"):
        mathops.fft._srcmodule = _FFTNoFastLen(mathops.fft._srcmodule)
        bump(faults, "backend_fallback")
    config.precision = cfg.get("precision0", 64)
    prec = cfg.get("precision0", 64)

    arrays = {k: materialise(s) for k, s in plan["arrays"].items()}
    user = {"alias": bool(cfg.get("alias")), "live": {}, "wf": {}, "shift": {}, "args": {}}
    versions = {}
    user["versions"] = versions
    user["forms_all"] = cfg.get("forms_all")
    history = []   # (sig, result, tol, scale, step) of judged calls
    dirty = False  # has any state-changing event happened since start?
    last_key_sig = {"mdft": None, "czt": None}
    judged_n = 0
    nontrivial = False

    for i, op in enumerate(plan["ops"]):
        kind = op["op"]
        ev = {"i": i, "op": kind}
        before = _cache_keys(ft)
        try:
            if kind == "wf_edit":
                name = op["arr"]
                if user["alias"] and arrays[name].dtype.kind in "fc":
                    if name not in user["live"]:
                        user["live"][name] = arrays[name].copy()
                    a_live = user["live"][name]
                    w = _wavefront(pr, user, True, {"arr": name, "wvl": op["wvl"], "dx": op["dx"]}, a_live, "pupil")
                    if op["how"] == "pad":
                        w.pad2d(op["Q"])                     # in place: the Wavefront now holds the padded field
                    else:
                        w.crop(tuple(op["shape"]))
                        # crop returns a view of the old field; the user detaches it so that later edits of
                        # the old array do not show through (keeps the model's arrays independent)
                        w.data = np.array(w.data, copy=True)
                    newdata = w.data
                    new = op["new"]
                    arrays[new] = np.array(newdata, copy=True)
                    user["live"][new] = newdata
                    for kk in [kk for kk in user["wf"] if kk[0] == name]:
                        del user["wf"][kk]
                    user["wf"][(new, "pupil", op["wvl"], op["dx"])] = w
                    bump(faults, "wavefront_padded_or_cropped_in_place")
                    dirty = True
                ev["out"] = "ok"
            elif kind == "wf_chain":
                a0 = arrays[op["arr"]]
                if a0.dtype.kind in "fc" and a0.shape[0] == a0.shape[1]:
                    m0 = a0.shape[0]
                    try:
                        w = pr.Wavefront(np.array(a0, copy=True), op["wvl"], op["dx"], space="pupil")
                        w2 = w.focus_fixed_sampling(op["z"], op["odx"], op["out"], shift=tuple(op["shift"]), method=op["method"])
                        # the object that came out of a propagation, propagated on with default arguments ...
                        back1 = np.asarray(w2.unfocus_fixed_sampling(op["z"], op["dx"], m0, method=op["method"]).data)
                        # ... against a new Wavefront holding the same field
                        fresh = pr.Wavefront(np.array(w2.data, copy=True), w2.wavelength, w2.dx, space="psf")
                        back2 = np.asarray(fresh.unfocus_fixed_sampling(op["z"], op["dx"], m0, method=op["method"]).data)
                    except Exception as e:
                        # these are ordinary calls inside the quantifier: one that raises has returned no answer
                        violations.append({"oracle": "raised", "step": i, "route": op["method"], "exc": type(e).__name__,
                                           "msg": str(e)[:200], "feat": ["wavefront_chain"]})
                        ev["out"] = "raised:" + type(e).__name__
                        events.append(ev)
                        continue
                    sc = max(float(np.abs(back2).max()), 1e-300) if back2.size else 1.0
                    lim = (TOL32 if (prec == 32 or spec_is32(plan["arrays"][op["arr"]])) else 1e-9) * sc
                    if back1.shape != back2.shape or not bool(np.all(np.abs(back1 - back2) <= lim)):
                        violations.append({"oracle": "history", "step": i, "other": i, "route": op["method"],
                                           "err": float(np.abs(back1 - back2).max()) if back1.shape == back2.shape else -1.0,
                                           "tol": lim, "feat": ["wavefront_from_a_propagation_vs_fresh_wavefront"]})
                    bump(probes, "wavefront_chain_compared")
                    dirty = True
                ev["out"] = "ok"
            elif kind == "edit":
                name = op["arr"]
                a0 = arrays[name]
                if name not in user["live"]:
                    user["live"][name] = a0.copy()
                live = user["live"][name]
                g = np.random.Generator(np.random.PCG64(op["seed"]))
                if a0.dtype.kind in "fc":
                    if op["how"] == "scale":
                        live *= 0.5
                    elif op["how"] == "negate":
                        np.negative(live, out=live)
                    elif op["how"] == "mask":
                        live *= (g.random(live.shape) < 0.6)
                    else:
                        live += 1.0
                    arrays[name] = live.copy()          # what the user's array holds from now on
                    versions[name] = versions.get(name, 0) + 1
                    bump(faults, "user_edited_input_in_place")
                    dirty = True
                ev["out"] = "ok"
            elif kind == "clear":
                if op["which"] in ("mdft", "both"):
                    ft.mdft.clear()
                if op["which"] in ("czt", "both"):
                    ft.czt.clear()
                bump(faults, "cache_clear")
                dirty = True
                ev["out"] = "ok"
            elif kind == "precision":
                config.precision = op["bits"]
                if op["bits"] != prec:
                    bump(faults, "precision_flip")
                    dirty = True
                prec = op["bits"]
                ev["out"] = "ok"
                ev["bits"] = prec
            elif kind == "pollute":
                ev["out"] = _pollute(np, ft, pr, op)
                bump(faults, "polluter_call")
                dirty = True
            elif kind == "poison":
                ev["out"] = _poison(np, ft, op)
                bump(faults, "poison_call")
                dirty = True
            elif kind in JUDGED:
                judged_n += 1
                r = _judged(np, ft, pr, op, arrays, prec, i, history, violations, probes, bump, user)
                ev.update(r)
            else:
                raise RuntimeError(f"unknown op {kind}")
        except _Skip as s:
            ev["out"] = "skip:" + str(s)
        after = _cache_keys(ft)
        hit = None
        if before is not None and after is not None and kind in JUDGED and not ev.get("out", "").startswith("skip"):
            hit = (after[0] == before[0] and after[1] == before[1]) and kind not in ("focus", "unfocus")
            ev["hit"] = hit
            if hit and dirty:
                bump(probes, "cache_hit_after_state_change")
            if hit:
                bump(probes, "cache_hit")
            else:
                bump(probes, "cache_miss")
        if kind in JUDGED and dirty and judged_n >= 2:
            nontrivial = True
        if kind in JUDGED:
            dirty = True
        if after is not None:
            st = (min(len(after[0]), 4), min(len(after[1]), 4), prec)
            trans.add(f"{st}|{kind}|{hit}|{ev.get('out', '')[:12]}")
        events.append(ev)

    # post-run history check: equal (op, args, data, precision) => equal answers
    seen = {}
    for sig, res, tol, scale, step in history:
        if sig in seen:
            res0, step0 = seen[sig]
            if res0.shape == res.shape:
                err = float(np.max(np.abs(res0 - res))) if res.size else 0.0
                bump(probes, "history_pairs_compared")
                if not (err <= tol * scale):
                    violations.append({"oracle": "history", "step": step, "other": step0,
                                       "err": err, "tol": tol * scale,
                                       "route": _route(plan["ops"][step]),
                                       "feat": _features(plan, plan["ops"][step])})
        else:
            seen[sig] = (res, step)
    return {"events": events, "violations": violations, "faults": faults, "probes": probes,
            "trans": sorted(trans), "nontrivial": nontrivial}


class _Skip(Exception):
    pass


def _pollute(np, ft, pr, op):
    g = op["g"]
    rs = np.random.Generator(np.random.PCG64(op["seed"]))
    Q = g["Q"] if not isinstance(g["Q"], list) else tuple(g["Q"])
    out = _norm_out(g["out"])
    m, n = g["in"]
    shift = tuple(g["shift"])
    k = op["kind"]
    try:
        if k == "dft2_backprop":
            fbar = rs.standard_normal(out) + 1j * rs.standard_normal(out)
            ft.mdft.dft2_backprop(fbar, Q, samples_in=(m, n), shift=shift)
        elif k == "idft2_backprop":
            fbar = rs.standard_normal(out) + 1j * rs.standard_normal(out)
            ft.mdft.idft2_backprop(fbar, Q, samples_out=(m, n), shift=shift)
        elif k == "resample":
            f = rs.standard_normal((m, n))
            z = op["zoom"]
            z = tuple(z) if isinstance(z, list) else z
            ft.fourier_resample(f, z)
        elif k == "nbytes":
            ft.mdft.nbytes()
            ft.czt.nbytes()
        elif k == "ffs_backprop":
            fbar = rs.standard_normal(out) + 1j * rs.standard_normal(out)
            pr.focus_fixed_sampling_backprop(fbar, 0.1, 100.0, 0.5, 1.0, (m, m), shift=shift)
        elif k == "ufs_backprop":
            fbar = rs.standard_normal(out) + 1j * rs.standard_normal(out)
            pr.unfocus_fixed_sampling_backprop(fbar, 1.0, 100.0, 0.5, 0.1, (m, m), shift=shift)
        elif k == "wf_ffs_backprop":
            fbar = rs.standard_normal(out) + 1j * rs.standard_normal(out)
            pr.Wavefront(fbar, 0.5, 1.0, space="psf").focus_fixed_sampling_backprop(100.0, 0.1, (m, m), shift=shift)
        elif k == "q_scan":
            a = rs.standard_normal((m, n)) + 1j * rs.standard_normal((m, n))
            for j in range(op["count"]):
                qj = 0.5 + 0.03125 * j + (0.001 if j % 2 else 0.0)
                if "mdft" in op["routes"]:
                    (ft.mdft.dft2 if j % 3 else ft.mdft.idft2)(a, qj, out, shift=shift)
                if "czt" in op["routes"]:
                    (ft.czt.czt2 if j % 3 else ft.czt.iczt2)(a, qj, out, shift=shift)
        elif k == "pad_outshape":
            pm, pn = op["shape"]
            a = rs.standard_normal((pm, pn))
            qq = op["Q"]
            oshape = (math.ceil(pm * qq) + op["grow"][0], math.ceil(pn * qq) + op["grow"][1])
            ft.pad2d(a, Q=qq, out_shape=oshape)
            ft.pad2d(a, out_shape=(2 * pm + op["grow"][1], 2 * pn + op["grow"][0]))
            big = pr.Wavefront(a + 0j, 0.5, 1.0).pad2d(qq, out_shape=oshape, inplace=False)
            ft.crop_center(np.asarray(big.data), (pm, pn))
        return "ok"
    except Exception as e:  # outcome of polluters is not judged
        return "raised:" + type(e).__name__


def _poison(np, ft, op):
    g = op["g"]
    rs = np.random.Generator(np.random.PCG64(op["seed"]))
    m, n = g["in"]
    out = _norm_out(g["out"])
    Q = g["Q"] if not isinstance(g["Q"], list) else tuple(g["Q"])
    k = op["kind"]
    try:
        if k == "list_samples":
            ft.mdft.dft2(rs.standard_normal((m, n)), Q, samples_out=[out[0], out[1]])
        elif k == "int_fracshift":
            ft.czt.czt2(rs.integers(0, 5, (m, n)), Q, out, shift=(0.37, -1.21))
        elif k == "bad_Q":
            ft.mdft.dft2(rs.standard_normal((m, n)), "2", out)
        elif k == "uint8_samples":
            # sample counts as small unsigned numpy integers (their arithmetic wraps): whatever this call
            # returns, it must not leave anything behind for the same geometry given as plain integers
            shift = tuple(g["shift"])
            for fn in (ft.czt.czt2, ft.czt.iczt2, ft.mdft.dft2, ft.mdft.idft2):
                try:
                    fn(rs.standard_normal((m, n)), Q, (np.uint8(out[0]), np.uint8(out[1])), shift=shift)
                except Exception:
                    pass
        elif k == "cube_everywhere":
            # a 3-D array handed to every 2-D entry point, forward and inverse: each call may fail however it
            # likes, none may leave the shared executors in a state that later valid calls can see
            cube = rs.standard_normal((2, m, n)) + 1j * rs.standard_normal((2, m, n))
            shift = tuple(g["shift"])
            for fn in (ft.czt.iczt2, ft.czt.czt2, ft.mdft.idft2, ft.mdft.dft2):
                try:
                    fn(cube, Q, out, shift=shift)
                except Exception:
                    pass
            from prysm import propagation as _pr
            for fn in (_pr.unfocus_fixed_sampling, _pr.focus_fixed_sampling):
                for meth in ("czt", "mdft"):
                    try:
                        fn(cube, 1.0, 100.0, 0.5, 2.0, out, shift=(0, 0), method=meth)
                    except Exception:
                        pass
            for fn in (_pr.focus, _pr.unfocus):
                try:
                    fn(cube, 2)
                except Exception:
                    pass
        elif k == "f32_scalars":
            # the same physical-unit call made with numpy float32 scalars (by someone else, earlier)
            c = op["call"]
            from prysm import propagation as _pr
            mm = spec_m = None
            f32 = np.float32
            for meth in ("czt", "mdft"):
                try:
                    fn = _pr.focus_fixed_sampling if c["op"] == "ffs" else _pr.unfocus_fixed_sampling
                    side = rs.standard_normal((g["in"][0], g["in"][0]))
                    fn(side, f32(c["dx"]), f32(c["z"]), f32(c["wvl"]), f32(c["odx"]), c["out"], method=meth)
                except Exception:
                    pass
        elif k == "f32_Q":
            for fn in (ft.czt.czt2, ft.mdft.dft2):
                try:
                    fn(rs.standard_normal((m, n)), np.float32(_norm_q(g["Q"])[0]), out)
                except Exception:
                    pass
        elif k == "f32_Qpair":
            # per-axis Q given as a pair of numpy float32 scalars (what float32 bookkeeping upstream hands
            # over), same geometry and shift as an ordinary call of this run, every entry point
            qy, qx = _norm_q(g["Q"])
            shift = tuple(g["shift"])
            for fn in (ft.mdft.dft2, ft.mdft.idft2, ft.czt.czt2, ft.czt.iczt2):
                try:
                    fn(rs.standard_normal((m, n)), (np.float32(qy), np.float32(qx)), out, shift=shift)
                except Exception:
                    pass
        return "ok"
    except Exception as e:  # outcome of poison calls is not judged
        return "raised:" + type(e).__name__


def _route(op):
    k = op["op"]
    if k in ("dft2", "idft2"):
        return "mdft"
    if k in ("czt2", "iczt2"):
        return "czt"
    if k in ("ffs", "ufs"):
        return op["method"]
    return "fft"


def _geometry(op, arr_shape):
    """(Q, out, shift-in-samples, fwd) of a judged op, as the reference needs it."""
    k = op["op"]
    m, n = arr_shape
    if k in ("dft2", "idft2", "czt2", "iczt2"):
        return _norm_q(op["Q"]), _norm_out(op["out"]), _norm_shift(op["shift"]), k in ("dft2", "czt2")
    if k == "ffs":
        q = op["wvl"] * op["z"] / (m * op["dx"]) / op["odx"]
        sh = (op["shift"][0] / op["odx"], op["shift"][1] / op["odx"])
        return (q, q), _norm_out(op["out"]), sh, True      # for m != n see _alt_geometry
    if k == "ufs":
        M = _norm_out(op["out"])[0]
        q = (op["wvl"] * op["z"] / (op["odx"] * M)) / op["dx"] / (m / M)
        sh = (op["shift"][0] / op["odx"], op["shift"][1] / op["odx"])
        return (q, q), _norm_out(op["out"]), sh, False
    if k in ("focus", "unfocus"):
        Q = op["Q"]
        P = (math.ceil(m * Q), math.ceil(n * Q))
        return (P[0] / m, P[1] / n), P, (0.0, 0.0), k == "focus"
    raise RuntimeError(k)


def _alt_geometry(op, arr_shape):
    """Non-square pupil through focus_fixed_sampling: the routine takes ONE diameter.  The
    implementation uses the extent along axis 0 for both axes (Q the same scalar on both,
    i.e. m*Q != n*Q samples per cycle); the physically motivated reading gives each axis its
    own extent (Q_x = Q_y * m / n).  Which one 'the grid that Q defines' means is a C03/C05
    question, so either answer is accepted here."""
    m, n = arr_shape
    if op["op"] != "ffs" or m == n:
        return None
    q = op["wvl"] * op["z"] / (m * op["dx"]) / op["odx"]
    return (q, q * m / n)


def _features(plan, op):
    spec = plan["arrays"][op["arr"]]
    m, n = spec_shape(spec)
    (qy, qx), (M, N), (sx, sy), fwd = _geometry(op, (m, n))
    f = []
    if m != n:
        f.append("nonsquare_in")
    if M != N:
        f.append("nonsquare_out")
    if qy != qx:
        f.append("peraxisQ")
    if (m % 2 == 0 and M % 2 == 1) or (n % 2 == 0 and N % 2 == 1):
        f.append("even2odd")
    if (m % 2 == 1 and M % 2 == 0) or (n % 2 == 1 and N % 2 == 0):
        f.append("odd2even")
    if sx != 0 or sy != 0:
        f.append("fracshift" if (sx != int(sx) or sy != int(sy)) else "intshift")
    if spec_isint(spec):
        f.append("intdata")
    if spec_is32(spec):
        f.append("data32")
    return f


def _same(np, a, b):
    return a.shape == b.shape and a.dtype == b.dtype and bool(np.array_equal(a, b))


def _judged(np, ft, pr, op, arrays, prec, step, history, violations, probes, bump, user=None):
    import warnings
    k = op["op"]
    user = user or {"alias": False, "live": {}, "wf": {}, "shift": {}}
    alias = user["alias"] and not op.get("view")
    if alias:
        # the user's own long-lived array: the same object is handed to every call
        if op["arr"] not in user["live"]:
            user["live"][op["arr"]] = arrays[op["arr"]].copy()
        a = user["live"][op["arr"]]
        bump(probes, "aliased_input")
    else:
        a = arrays[op["arr"]].copy()
    view = op.get("view")
    if view == "fortran":
        a = np.asfortranarray(a)
    elif view == "negstride":
        a = a[::-1, ::-1].copy()[::-1, ::-1]
    elif view == "readonly":
        a.setflags(write=False)
    elif view == "strided":
        big = np.zeros((a.shape[0] * 2, a.shape[1] * 3), dtype=a.dtype)
        big[::2, ::3] = a
        a = big[::2, ::3]
    if view:
        bump(probes, f"input_view_{view}")
    m, n = a.shape
    Q, out, shift, fwd = _geometry(op, (m, n))
    route = _route(op)
    is_int = a.dtype.kind in "iub"
    data32 = a.dtype in (np.float32, np.complex64)
    tol = TOL64 if (prec == 64 and not data32) else TOL32
    shifted = shift[0] != 0 or shift[1] != 0
    # largest phase (radians) any route has to represent: the chirp-Z kernel
    # pi*alpha*j^2 with |j| up to n + M + |shift| dominates.  In single precision
    # the answer cannot be better than eps32 * that phase.
    cond = max(math.pi / (m * Q[0]) * (m + out[0] + abs(shift[1])) ** 2,
               math.pi / (n * Q[1]) * (n + out[1] + abs(shift[0])) ** 2)
    if tol != TOL64:
        tol = max(tol, 8 * 6e-8 * cond)
        if tol > 0.05:
            bump(probes, "ill_conditioned_32bit_not_judged")
            return {"out": "skip:ill-conditioned-32bit"}
    elif 8 * 1.2e-16 * cond > tol:
        tol = 8 * 1.2e-16 * cond
    if abs(shift[0]) > 16 or abs(shift[1]) > 16:
        bump(probes, "large_shift")

    # probes
    if m != n:
        bump(probes, f"nonsquare_{route}")
    if Q[0] != Q[1]:
        bump(probes, "peraxis_Q")
    if shifted and (shift[0] != int(shift[0]) or shift[1] != int(shift[1])):
        bump(probes, "fractional_shift")
    if (m % 2 == 0 and out[0] % 2 == 1) or (n % 2 == 0 and out[1] % 2 == 1):
        bump(probes, "even_to_odd")
    if (m % 2 == 1 and out[0] % 2 == 0) or (n % 2 == 1 and out[1] % 2 == 0):
        bump(probes, "odd_to_even")
    if m == 1 or n == 1:
        bump(probes, "one_by_n")
    if prec == 32:
        bump(probes, "precision32_call")

    def tup(x):
        return tuple(x) if isinstance(x, list) else x

    raised = None
    res = None
    lenient = False
    wf_obj = None
    shift_obj = None
    with warnings.catch_warnings():
        warnings.simplefilter("ignore")
        try:
            if k in ("dft2", "idft2", "czt2", "iczt2"):
                fn = {"dft2": ft.mdft.dft2, "idft2": ft.mdft.idft2,
                      "czt2": ft.czt.czt2, "iczt2": ft.czt.iczt2}[k]
                kw = {}
                if op["shift"] is not None:
                    kw["shift"] = tup(op["shift"])
                qa, oa = tup(op["Q"]), tup(op["out"])
                forms = op.get("forms") or user.get("forms_all")
                if forms:
                    qa, oa, kw, lenient = _apply_forms(np, forms, qa, oa, kw)
                    bump(probes, "argument_forms")
                    if alias:
                        # the user keeps ONE list / array object per argument and rewrites its contents
                        # before each call (same identity, new values)
                        held = user["args"]
                        for nm, val in (("Q", qa), ("out", oa), ("shift", kw.get("shift"))):
                            if isinstance(val, list):
                                obj = held.setdefault((nm, "list", len(val)), list(val))
                                obj[:] = val
                                val2 = obj
                            elif isinstance(val, np.ndarray) and val.ndim == 1:
                                obj = held.setdefault((nm, "arr", val.size), val.copy())
                                obj[...] = val
                                val2 = obj
                            else:
                                continue
                            if nm == "Q":
                                qa = val2
                            elif nm == "out":
                                oa = val2
                            else:
                                kw["shift"] = val2
                        bump(probes, "reused_argument_containers")
                res = fn(a, qa, oa, **kw)
            elif k in ("ffs", "ufs"):
                sh = tuple(op["shift"])
                if op.get("shift_arr"):
                    lenient = True        # documented as a tuple; an array may be rejected cleanly
                    if alias:
                        key = (op["arr"], sh)
                        if key not in user["shift"]:
                            user["shift"][key] = np.array(sh, dtype=np.float64)
                        sh = user["shift"][key]
                        shift_obj = (key, sh, np.array(op["shift"], dtype=np.float64))
                    else:
                        sh = np.array(sh, dtype=np.float64)
                if op["wf"]:
                    w = _wavefront(pr, user, alias, op, a, "pupil" if k == "ffs" else "psf")
                    wf_obj = w
                    meth = w.focus_fixed_sampling if k == "ffs" else w.unfocus_fixed_sampling
                    res = meth(op["z"], op["odx"], tup(op["out"]), shift=sh, method=op["method"]).data
                else:
                    fn = pr.focus_fixed_sampling if k == "ffs" else pr.unfocus_fixed_sampling
                    res = fn(a, op["dx"], op["z"], op["wvl"], op["odx"], tup(op["out"]),
                             shift=sh, method=op["method"])
            else:
                if op["wf"]:
                    w = _wavefront(pr, user, alias, op, a, "pupil" if k == "focus" else "psf")
                    wf_obj = w
                    res = (w.focus(op["efl"], Q=op["Q"]) if k == "focus" else w.unfocus(op["efl"], Q=op["Q"])).data
                else:
                    res = (pr.focus if k == "focus" else pr.unfocus)(a, op["Q"])
        except Exception as e:
            raised = e

    # whatever the call did, the caller's own objects must still hold what was passed in:
    # otherwise the next call with "the same arguments" transforms something else
    pristine = arrays[op["arr"]]
    mutated = None
    if not op.get("view") or op.get("view") in ("fortran", "negstride", "strided"):
        if not _same(np, np.asarray(a), pristine):
            mutated = "input array"
    if wf_obj is not None and mutated is None:
        d = getattr(wf_obj, "data", None)
        if d is None or not _same(np, np.asarray(d), pristine):
            mutated = "Wavefront.data"
    if shift_obj is not None and mutated is None:
        if not _same(np, shift_obj[1], shift_obj[2]):
            mutated = "shift array"
    if mutated:
        violations.append({"oracle": "arg-mutated", "step": step, "route": route, "what": mutated,
                           "feat": _features_from(m, n, Q, out, shift, pristine, np)})
        # put the user's objects back so that one mutation is reported once
        if alias:
            user["live"][op["arr"]] = pristine.copy()
            for kk in [kk for kk in user["wf"] if kk[0] == op["arr"]]:
                del user["wf"][kk]
            if shift_obj is not None:
                del user["shift"][shift_obj[0]]
    feat = None
    if raised is not None:
        r = {"out": "raised:" + type(raised).__name__}
        if not is_int and not lenient:
            # every call generated here is inside the property's quantifier: a
            # call that raises has returned no answer at all.  (Integer-typed
            # input may be rejected cleanly; wrong numbers may not be returned.)
            violations.append({"oracle": "raised", "step": step, "route": route,
                               "exc": type(raised).__name__, "msg": str(raised)[:200],
                               "feat": _features_from(m, n, Q, out, shift, a, np)})
        return r

    res = np.asarray(res)
    r = {"out": "ok", "fp": core.fp_array(res)}
    if tuple(res.shape) != tuple(out):
        violations.append({"oracle": "shape", "step": step, "route": route,
                           "got": list(res.shape), "want": list(out),
                           "feat": _features_from(m, n, Q, out, shift, a, np)})
        return r
    ref = ref_dft(np, arrays[op["arr"]], Q, out, shift, fwd)
    alt_q = _alt_geometry(op, (m, n))
    scale = float(np.sum(np.abs(arrays[op["arr"]]))) / math.sqrt(m * Q[0] * n * Q[1])
    scale = max(scale, 1e-300)
    if not np.all(np.isfinite(res)):
        violations.append({"oracle": "finite", "step": step, "route": route,
                           "feat": _features_from(m, n, Q, out, shift, a, np)})
        return r
    if shifted:
        err = float(np.max(np.abs(np.abs(res) - np.abs(ref))))
        orc = "ref-modulus"
    else:
        err = float(np.max(np.abs(res - ref)))
        orc = "ref-complex"
    if alt_q is not None and not (err <= tol * scale):
        ref2 = ref_dft(np, arrays[op["arr"]], alt_q, out, shift, fwd)
        err2 = float(np.max(np.abs(np.abs(res) - np.abs(ref2)))) if shifted else float(np.max(np.abs(res - ref2)))
        if err2 <= tol * scale:
            err = err2
            bump(probes, "nonsquare_ffs_alternative_reading")
    if alt_q is not None:
        bump(probes, "nonsquare_ffs_judged")
    r["relerr"] = float(f"{err / scale:.2e}")
    if not (err <= tol * scale):
        violations.append({"oracle": orc, "step": step, "route": route, "err": err,
                           "tol": tol * scale, "relerr": err / scale, "prec": prec,
                           "feat": _features_from(m, n, Q, out, shift, a, np)})
    # signature for the history check: everything the answer may depend on
    sig = core.digest([k, {kk: vv for kk, vv in op.items() if kk not in ("op", "forms", "view", "shift_arr")}, prec,
                       user.get("versions", {}).get(op["arr"], 0)])
    cmp = np.abs(res) if shifted else res
    history.append((sig, cmp, tol, scale, step))
    return r


def _wavefront(pr, user, alias, op, a, space):
    """A Wavefront around the caller's array; in alias mode the same object is
    reused for every call on that array in that plane."""
    if not alias:
        return pr.Wavefront(a, op["wvl"], op["dx"], space=space)
    key = (op["arr"], space, op["wvl"], op["dx"])
    w = user["wf"].get(key)
    if w is None or w.data is not a:
        w = pr.Wavefront(a, op["wvl"], op["dx"], space=space)
        user["wf"][key] = w
    return w


def _apply_forms(np, forms, qa, oa, kw):
    """Re-express the same argument values in other container / scalar types.
    Plain python numbers and tuples, numpy float64 scalars for Q and numpy
    integers for the sample counts are always accepted today; lists and arrays
    may be rejected cleanly (lenient) but, if accepted, must give the right answer."""
    lenient = False
    f = forms.get("Q")
    if f == "np64":
        qa = tuple(np.float64(q) for q in qa) if isinstance(qa, tuple) else np.float64(qa)
    elif f == "np32":
        qa = tuple(np.float32(q) for q in qa) if isinstance(qa, tuple) else np.float32(qa)
        lenient = True        # a float32 scalar may be rejected cleanly; if accepted the answer must be right
    elif f in ("list", "nparr"):
        q2 = list(qa) if isinstance(qa, tuple) else [qa, qa]
        qa = q2 if f == "list" else np.array(q2, dtype=np.float64)
        lenient = True
    f = forms.get("out")
    if f == "npint":
        oa = tuple(np.int64(o) for o in oa) if isinstance(oa, tuple) else np.int64(oa)
    elif f == "list":
        oa = list(oa) if isinstance(oa, tuple) else [oa, oa]
        lenient = True
    f = forms.get("shift")
    if "shift" in kw and f and f != "plain":
        sh = kw["shift"]
        sh = list(sh) if isinstance(sh, tuple) else [sh, sh]
        if f == "npscalars":
            kw["shift"] = tuple(np.float64(x) for x in sh)
        elif f == "np32scalars":
            kw["shift"] = tuple(np.float32(x) for x in sh)
            lenient = True    # may be rejected cleanly; if accepted the answer must be right for the value passed
        elif f == "list":
            kw["shift"] = sh
            lenient = True
        else:
            kw["shift"] = np.array(sh, dtype=np.float64)
            lenient = True
    return qa, oa, kw, lenient


def _features_from(m, n, Q, out, shift, a, np):
    f = []
    M, N = out
    if m != n:
        f.append("nonsquare_in")
    if M != N:
        f.append("nonsquare_out")
    if Q[0] != Q[1]:
        f.append("peraxisQ")
    if (m % 2 == 0 and M % 2 == 1) or (n % 2 == 0 and N % 2 == 1):
        f.append("even2odd")
    if (m % 2 == 1 and M % 2 == 0) or (n % 2 == 1 and N % 2 == 0):
        f.append("odd2even")
    if shift[0] != 0 or shift[1] != 0:
        f.append("fracshift" if (shift[0] != int(shift[0]) or shift[1] != int(shift[1])) else "intshift")
    if a.dtype.kind in "iub":
        f.append("intdata")
    if a.dtype in (np.float32, np.complex64):
        f.append("data32")
    return f


# ---------------------------------------------------------------------------
# classification / shrinking support


def signature(v):
    """Violation class used for grouping, shrinking and known-finding lookup."""
    return f"{v['oracle']}:{v.get('route', '?')}" + (f":{v['exc']}" if v.get("exc") else "")


def simplifiers(plan):
    """Yield simpler variants of a failing plan (one change each)."""
    import copy
    # config simplifications
    if plan["config"].get("fft_fallback"):
        p = copy.deepcopy(plan)
        p["config"]["fft_fallback"] = False
        yield p
    if plan["config"].get("precision0") != 64:
        p = copy.deepcopy(plan)
        p["config"]["precision0"] = 64
        yield p
    # unused arrays
    used = {op.get("arr") for op in plan["ops"]}
    if any(k not in used for k in plan["arrays"]):
        p = copy.deepcopy(plan)
        p["arrays"] = {k: v for k, v in p["arrays"].items() if k in used}
        yield p
    # data simplifications
    for name, spec in plan["arrays"].items():
        if "kind" in spec:
            for k2 in ("impulse", "ones", "f64", "c128"):
                if spec["kind"] != k2 and not (spec["kind"] == "f64" and k2 == "c128"):
                    p = copy.deepcopy(plan)
                    p["arrays"][name]["kind"] = k2
                    if k2 == "impulse":
                        p["arrays"][name]["pos"] = [0] * len(spec["shape"])
                    yield p
    # per-op argument simplifications
    for i, op in enumerate(plan["ops"]):
        if op["op"] in ("dft2", "idft2", "czt2", "iczt2"):
            if op["shift"] is not None:
                p = copy.deepcopy(plan)
                p["ops"][i]["shift"] = None
                yield p
                if isinstance(op["shift"], list):
                    for j in range(2):
                        if op["shift"][j] != 0:
                            p = copy.deepcopy(plan)
                            p["ops"][i]["shift"][j] = 0
                            yield p
                            if op["shift"][j] != int(op["shift"][j]):
                                p = copy.deepcopy(plan)
                                p["ops"][i]["shift"][j] = int(op["shift"][j])
                                yield p
                                p = copy.deepcopy(plan)
                                p["ops"][i]["shift"][j] = round(op["shift"][j], 1)
                                if p["ops"][i]["shift"][j] != op["shift"][j]:
                                    yield p
            if isinstance(op["Q"], list):
                p = copy.deepcopy(plan)
                p["ops"][i]["Q"] = op["Q"][0]
                yield p
            if op["Q"] != 1 and not isinstance(op["Q"], list):
                for q2 in (1, 2, round(float(op["Q"]), 1)):
                    if q2 != op["Q"] and q2 > 0:
                        p = copy.deepcopy(plan)
                        p["ops"][i]["Q"] = q2
                        yield p
            if isinstance(op["Q"], list):
                for j in range(2):
                    for q2 in (1, 2, round(float(op["Q"][j]), 1)):
                        if q2 != op["Q"][j] and q2 > 0:
                            p = copy.deepcopy(plan)
                            p["ops"][i]["Q"][j] = q2
                            yield p
            if isinstance(op["out"], list):
                if op["out"][0] == op["out"][1]:
                    p = copy.deepcopy(plan)
                    p["ops"][i]["out"] = op["out"][0]
                    yield p
                for j in range(2):
                    if op["out"][j] > 1:
                        p = copy.deepcopy(plan)
                        p["ops"][i]["out"][j] -= 1
                        yield p
            elif op["out"] > 1:
                p = copy.deepcopy(plan)
                p["ops"][i]["out"] -= 1
                yield p
        if op["op"] in ("ffs", "ufs"):
            if op["wf"]:
                p = copy.deepcopy(plan)
                p["ops"][i]["wf"] = False
                yield p
            if op["shift"] != [0, 0]:
                p = copy.deepcopy(plan)
                p["ops"][i]["shift"] = [0, 0]
                yield p
        if op["op"] in ("focus", "unfocus") and op["wf"]:
            p = copy.deepcopy(plan)
            p["ops"][i]["wf"] = False
            yield p
    # shrink array shapes (and every op geometry stays as is: out/Q are independent of in)
    for name, spec in plan["arrays"].items():
        if "kind" in spec:
            for j in range(2):
                if spec["shape"][j] > 1:
                    # physical-unit ops need square input: shrink both axes together there
                    sq = any(o.get("arr") == name and o["op"] in ("ffs", "ufs") for o in plan["ops"])
                    fftq = any(o.get("arr") == name and o["op"] in ("focus", "unfocus") for o in plan["ops"])
                    if fftq:
                        continue
                    p = copy.deepcopy(plan)
                    if sq:
                        if j == 1:
                            continue
                        p["arrays"][name]["shape"] = [spec["shape"][0] - 1] * 2
                    else:
                        p["arrays"][name]["shape"][j] -= 1
                    if "pos" in p["arrays"][name]:
                        p["arrays"][name]["pos"] = [0, 0]
                    yield p


_KIND_RANK = {"ones": 0, "impulse": 1, "ramp": 2, "f64": 3, "c128": 4, "f32": 5, "c64": 6, "i64": 7, "i16": 8, "i8": 8,
              "u8": 8, "bool": 8}


def plan_cost(plan):
    """Smaller is simpler: total samples, data kinds, then non-default arguments."""
    size = sum(int(s["shape"][0]) * int(s["shape"][1]) for s in plan["arrays"].values() if "shape" in s)
    kinds = sum(_KIND_RANK.get(s.get("kind"), 9) for s in plan["arrays"].values())
    nd = 0
    for op in plan["ops"]:
        if op.get("shift") not in (None, 0, [0, 0]):
            nd += 1
        if "Q" in op and op["Q"] not in (1, 1.0):
            nd += 1
        if isinstance(op.get("Q"), list):
            nd += 1
    return (size, kinds, nd)


def finalize_replay(plan):
    """Make array data literal so the replay file is self-contained."""
    import copy
    p = copy.deepcopy(plan)
    p["arrays"] = {k: to_literal(s) for k, s in p["arrays"].items()}
    return p


RULE = ("A run is one seeded history of 3-40 calls on the process-global mdft/czt executors and the FFT "
        "route, drawn from a pool of near-colliding geometries, interleaved with cache clears, precision "
        "flips, polluter and poison calls; each in a fresh forked interpreter. Non-trivial: at least two "
        "judged transforms and at least one judged transform executed after a state-changing event "
        "(another transform, clear, precision flip, polluter or poison). Distinct: distinct event-log "
        "digests (ops, outcomes, cache hit/miss and result fingerprints).")

COMPONENTS = {
    "real": ["prysm.fttools (MatrixDFTExecutor, ChirpZTransformExecutor, pad2d, fourier_resample)",
             "prysm.propagation (focus, unfocus, *_fixed_sampling, Wavefront methods)", "prysm.conf",
             "prysm.mathops", "numpy", "scipy.fft"],
    "stub": ["scipy.fft without next_fast_len (proxy, ~15% of runs)"],
}
