"""C12 — the interferogram stays coherent over any history.

History simulation of one long-lived mutable prysm.interferogram.Interferogram.
The simulator owns: the order of mutators, *when* the lazily cached coordinate
arrays get populated (observer reads at arbitrary points), dropout injection,
snapshot/restore through copy(), and global precision flips.  The oracle is a
small reference model (shape, dx, validity mask, value bookkeeping) plus
per-step coherence invariants that are always read on a deep copy, so that the
checker never populates the caches whose absence it is trying to exercise.
"""
import copy
import math

from sim import core

PROP = "C12"

MUTATORS = ("crop", "pad", "mask_arr", "mask_r", "fill", "spike_clip", "remove_piston",
            "remove_tiptilt", "remove_power", "recenter", "latcal", "strip_latcal", "filter")


# ---------------------------------------------------------------------------
# generation

def _rdim(rng, hi):
    c = rng.random()
    if c < 0.08:
        return 1
    if c < 0.2:
        return rng.choice([2, 3])
    return rng.randint(2, hi)


def generate(rng, tier):
    hi = 12 if tier == "quick" else rng.choice([8, 12, 16, 24])
    m = _rdim(rng, hi)
    n = m if rng.random() < 0.4 else _rdim(rng, hi)
    init = {
        "shape": [m, n],
        "dx": round(10 ** rng.uniform(-3, 3), rng.choice([2, 6, 12])) or 1.0,
        "nan": {"kind": rng.choice(["none", "none", "circle", "circle", "ragged", "ragged", "dropouts",
                                    "onerow", "single", "ring", "all"]),
                "seed": rng.getrandbits(32), "frac": rng.uniform(0.05, 0.5)},
        "data": {"seed": rng.getrandbits(32), "scale": 10 ** rng.uniform(-3, 4),
                 "tilt": [rng.uniform(-3, 3), rng.uniform(-3, 3)], "power": rng.uniform(-3, 3),
                 "piston": rng.uniform(-5, 5), "noise": rng.choice([0.0, 0.01, 0.3, 1.0])},
        "latcaled": rng.random() < 0.8,
        "layout": rng.choice(["c", "c", "c", "c", "fortran", "transposed"]),
        "meta": rng.random() < 0.3,                 # the object carries an instrument-metadata dict
        "dtype": "f32" if rng.random() < 0.1 else "f64",
        # an interferogram without lateral calibration (dx = 0, the constructor's default) that
        # stays that way until a step calibrates it
        "uncal": rng.random() < 0.12,
    }
    if init["dx"] <= 0:
        init["dx"] = 1.0
    cfg = {"precision0": 64 if rng.random() < 0.85 else 32}
    # swarm configuration: subset of op kinds enabled in this run
    kinds = {
        "crop": 3, "pad": 3, "mask_arr": 2, "mask_r": 2, "fill": 1, "spike_clip": 2,
        "remove_piston": 2, "remove_tiptilt": 2, "remove_power": 2, "recenter": 2,
        "latcal": 3, "strip_latcal": 2, "filter": 1,
        "read": 8, "copy": 1, "slices": 1, "stats": 1, "precision": 1, "poison": 1, "observe": 2,
    }
    enabled = {k: w for k, w in kinds.items() if rng.random() < 0.7 or k == "read"}
    if not any(k in enabled for k in MUTATORS):
        enabled["latcal"] = 3
        enabled["pad"] = 3
    names = list(enabled)
    wts = [enabled[k] for k in names]
    nsteps = rng.randint(3, 30 if tier == "quick" else 45)
    if core.rare(rng, 0.001 if tier == "quick" else 0.003):
        # a realistically large map (over a million samples), short history of the fitting steps
        init["shape"] = rng.choice([[1024, 1024], [900, 1300], [1200, 1000]])
        init["dtype"] = rng.choice(["f64", "f32", "f32"])
        init["data"]["piston"] = rng.choice([init["data"]["piston"], 200.0, 200.0])
        init["data"]["noise"] = 1.0
        if rng.random() < 0.6:
            # scattered single-sample dropouts: what breaks up long runs of a naive summation
            init["nan"]["kind"], init["nan"]["frac"] = "dropouts", rng.choice([0.05, 0.12, 0.2])
        else:
            init["nan"]["kind"] = rng.choice(["none", "circle", "ragged"])
        enabled = {"read": 2, "remove_piston": 1, "remove_tiptilt": 5, "remove_power": 2, "crop": 1}
        names = list(enabled)
        wts = [enabled[k] for k in names]
        nsteps = rng.randint(2, 4)
        big_tail = [{"op": "remove_piston"}]
    else:
        big_tail = []
    ops = []
    for _ in range(nsteps):
        k = rng.choices(names, wts)[0]
        if k == "read":
            what = rng.sample(["x", "y", "r", "t"], rng.choice([1, 1, 1, 2, 2, 4]))
            op = {"op": "read", "what": what}
        elif k == "pad":
            c = rng.random()
            val = rng.choice(["nan", "nan", 0, rng.uniform(-5, 5)])
            if c < 0.4:
                op = {"op": "pad", "samples": rng.randint(0, 4), "value": val}
            elif c < 0.7:
                op = {"op": "pad", "samples": [rng.randint(0, 4), rng.randint(0, 4)], "value": val}
            elif c < 0.85:
                op = {"op": "pad", "grow": [rng.randint(0, 4), rng.randint(0, 4)], "value": val}
            else:
                op = {"op": "pad", "grow_sq": rng.randint(0, 3), "value": val}
        elif k == "mask_arr":
            op = {"op": "mask_arr", "seed": rng.getrandbits(32), "keep": rng.uniform(0.3, 0.98)}
        elif k == "mask_r":
            op = {"op": "mask_r", "rho": rng.uniform(0.3, 1.05)}
        elif k == "fill":
            op = {"op": "fill", "v": rng.choice([0, 0.0, 1.5, -2.0])}
        elif k == "spike_clip":
            op = {"op": "spike_clip", "ns": rng.choice([1.0, 1.5, 2.0, 3, 3.0])}
        elif k == "latcal":
            op = {"op": "latcal", "p": rng.choice([2.0, 0.5, 3, round(10 ** rng.uniform(-3, 3), 4) or 1.0,
                                                   -0.5, -2.0])}          # (a negative scale mirrors the axes: spacing -|p|)
        elif k == "filter":
            typ = rng.choice(["lp", "hp", "bp", "br", "lowpass", "highpass"])
            if typ in ("bp", "br"):
                a, b = sorted([rng.uniform(0.05, 0.9), rng.uniform(0.05, 0.9)])
                if b - a < 0.05:
                    b = a + 0.05
                op = {"op": "filter", "typ": typ, "fc": [a, b]}
            else:
                op = {"op": "filter", "typ": typ, "fc": rng.uniform(0.05, 0.9)}
        elif k == "precision":
            op = {"op": "precision", "bits": rng.choice([32, 64])}
        elif k == "observe":
            op = {"op": "observe", "what": rng.choice(["pvr", "pvr", "strehl", "psd", "support", "str", "slope",
                                                       "exact_x", "exact_y", "exact_xy", "exact_polar"])}
        elif k == "poison":
            # a step that is given nonsense and (today) fails: whatever it leaves behind must be coherent
            op = {"op": "poison", "kind": rng.choice(["pad_smaller", "mask_badshape", "filter_badtype", "pad_both"])}
        else:
            op = {"op": k}
        ops.append(op)
    ops = big_tail + ops
    if rng.random() < 0.2 and not big_tail:
        # a directed tail: filtering needs fully valid data, which random histories rarely have, so
        # read some coordinates, crop to the valid box, fill what is left, then filter
        tail = [{"op": "read", "what": rng.sample(["x", "y", "r", "t"], rng.choice([1, 2, 4]))}] if rng.random() < 0.7 else []
        tail += [{"op": "crop"}, {"op": "fill", "v": rng.choice([0, 0.0, 1.5])}]
        if rng.random() < 0.3:
            tail.append({"op": "read", "what": [rng.choice(["r", "t"])]})
        typ = rng.choice(["lp", "hp", "bp", "br"])
        fc = sorted([rng.uniform(0.05, 0.5), rng.uniform(0.5, 0.9)]) if typ in ("bp", "br") else rng.uniform(0.05, 0.9)
        tail.append({"op": "filter", "typ": typ, "fc": fc})
        ops = ops[:max(0, len(ops) - 2)] + tail
    elif rng.random() < 0.1 and not big_tail:
        # another everyday sequence that random histories seldom produce in this order: drop the calibration,
        # crop to the valid box (off-centre for ragged borders), recentre - then whatever follows, and the
        # sibling instance of the original shape that is re-calibrated at the end
        tail = [{"op": "strip_latcal"}, {"op": "crop"}, {"op": "recenter"}]
        pos = rng.randint(0, len(ops))
        ops = ops[:pos] + tail + ops[pos:]
        if rng.random() < 0.6:
            init["nan"]["kind"] = "ragged"
    if core.rare(rng, 0.004, phase=91) and init["shape"][0] * init["shape"][1] <= 4096:
        # the plotting helpers are read-only observers too (drawn off-screen); rare because importing the
        # plotting library in the run's process is slow
        ops.insert(rng.randint(0, len(ops)), {"op": "observe", "what": rng.choice(["slices_plot", "plot2d"])})
    return {"prop": PROP, "tier": tier, "config": cfg, "init": init, "ops": ops}


# ---------------------------------------------------------------------------
# world construction

def build_data(np, init):
    m, n = init["shape"]
    d = init["data"]
    g = np.random.Generator(np.random.PCG64(d["seed"]))
    yy, xx = np.meshgrid(np.linspace(-1, 1, m) if m > 1 else np.zeros(1),
                         np.linspace(-1, 1, n) if n > 1 else np.zeros(1), indexing="ij")
    z = (d["piston"] + d["tilt"][0] * xx + d["tilt"][1] * yy + d["power"] * (xx * xx + yy * yy)
         + 0.5 * np.sin(3.1 * xx + 0.7) * np.cos(2.3 * yy) + d["noise"] * g.standard_normal((m, n)))
    z = z * d["scale"]
    nk = init["nan"]
    g2 = np.random.Generator(np.random.PCG64(nk["seed"]))
    valid = np.ones((m, n), dtype=bool)
    kind = nk["kind"]
    if kind == "circle":
        rr = np.hypot(xx, yy)
        valid = rr <= g2.uniform(0.6, 1.1)
    elif kind == "ring":
        rr = np.hypot(xx, yy)
        ro = g2.uniform(0.6, 1.1)
        valid = (rr <= ro) & (rr >= ro * g2.uniform(0.2, 0.6))
    elif kind == "ragged":
        t, b = int(g2.integers(0, max(1, m // 3) + 1)), int(g2.integers(0, max(1, m // 3) + 1))
        le, r = int(g2.integers(0, max(1, n // 3) + 1)), int(g2.integers(0, max(1, n // 3) + 1))
        valid[:t, :] = False
        if b:
            valid[m - b:, :] = False
        valid[:, :le] = False
        if r:
            valid[:, n - r:] = False
        valid &= g2.random((m, n)) > 0.1
    elif kind == "dropouts":
        valid = g2.random((m, n)) > nk["frac"]
    elif kind == "onerow":
        valid[:] = False
        valid[int(g2.integers(0, m)), :] = True
    elif kind == "single":
        valid[:] = False
        valid[int(g2.integers(0, m)), int(g2.integers(0, n))] = True
    elif kind == "all":
        valid[:] = False
    z = z.copy()
    z[~valid] = np.nan
    return z


# ---------------------------------------------------------------------------
# execution

def _nan_eq(np, a, b):
    return a.shape == b.shape and bool(np.all((a == b) | (np.isnan(a) & np.isnan(b))))


def _cache_bits(ifg):
    try:
        return "".join(c if getattr(ifg, "_" + c) is not None else "-" for c in "xyrt")
    except AttributeError:
        return "????"


class _Model:
    pass


def _coords_same(np, a1, a0):
    """Coordinates of an untouched object may be regenerated (e.g. on demand, in the currently
    configured precision): equal up to the rounding of the coarser of the two dtypes."""
    a1, a0 = np.asarray(a1), np.asarray(a0)
    if a1.shape != a0.shape:
        return False
    rel = 1e-4 if (a1.dtype == np.float32 or a0.dtype == np.float32) else 1e-9
    ext = max(float(np.abs(a0).max()) if a0.size else 0.0, 1e-300)
    d = np.abs(a1.astype(float) - a0.astype(float))
    if bool(np.all(d <= rel * ext)):
        return True
    # angles: compare modulo a full turn
    return bool(np.all(np.abs(np.angle(np.exp(1j * (a1.astype(float) - a0.astype(float))))) <= rel * 10))


def execute(plan):
    core.import_prysm()
    import warnings
    import numpy as np
    from prysm.interferogram import Interferogram
    from prysm.conf import config

    warnings.simplefilter("ignore")
    np.seterr(all="ignore")
    config.precision = plan["config"].get("precision0", 64)
    init = plan["init"]
    z = build_data(np, init)
    dx0 = init["dx"]
    uncal = bool(init.get("uncal"))
    z_user = z.copy()
    f32data = init.get("dtype") == "f32"
    if f32data:
        z_user = z_user.astype(np.float32)
        z = z_user.astype(np.float64)                # what the object really holds
    if init.get("layout") == "fortran":
        z_user = np.asfortranarray(z_user)            # the same samples in column-major memory
    elif init.get("layout") == "transposed":
        z_user = np.ascontiguousarray(z_user.T).T     # ... or as a transposed view
    ifg = Interferogram(z_user, dx=dx0 if (init["latcaled"] and not uncal) else 0.0, wavelength=0.6328,
                        meta={"instrument": "sim", "removed": 0} if init.get("meta") else None)
    if not init["latcaled"] and not uncal:
        # an un-calibrated interferogram is brought to a defined spacing first
        ifg.latcal(dx0)
    # a second, independent interferogram of the same shape and spacing whose coordinates are
    # read now and which receives no step at all: nothing done to `ifg` may reach it
    sib = Interferogram(z.copy(), dx=float(ifg.dx), wavelength=0.6328)
    sib_snap = {w: np.array(getattr(sib, w)) for w in "xyrt"}
    sib_data = sib.data.copy()
    mdl = _Model()
    mdl.shape = tuple(z.shape)
    mdl.dx = 0.0 if uncal else float(dx0)
    mdl.valid = ~np.isnan(z)
    mdl.scale = float(np.nanmax(np.abs(z))) if mdl.valid.any() else 1.0
    mdl.scale = max(mdl.scale, 1e-300)

    events, violations = [], []
    faults, probes = {}, {}
    trans = set()
    state_changes = 0

    def bump(d, k, n=1):
        d[k] = d.get(k, 0) + n

    fired = set()

    def viol(oracle, step, op, bits, **kw):
        # a broken invariant usually stays broken: report each oracle once per
        # run, at the first step where it fails
        if oracle in fired:
            return
        fired.add(oracle)
        v = {"oracle": oracle, "step": step, "op": op, "caches": bits}
        v.update(kw)
        violations.append(v)

    _invariants(np, ifg, mdl, -1, "init", _cache_bits(ifg), viol)

    prev_mutating = False
    shadows = []
    for i, op in enumerate(plan["ops"]):
        k = op["op"]
        bits = _cache_bits(ifg)
        before = ifg.data.copy()
        valid_before = mdl.valid.copy()
        ev = {"i": i, "op": k, "c": bits}
        out = "ok"
        skip = False
        try:
            if k == "read":
                for w in op["what"]:
                    was = getattr(ifg, "_" + w, 0) is None
                    getattr(ifg, w)
                    if was:
                        bump(faults, f"cache_populate_{w}")
            elif k == "slices":
                s = ifg.slices()
                s.x, s.y
            elif k == "stats":
                ifg.pv, ifg.rms, ifg.Sa, ifg.std, ifg.dropout_percentage
            elif k == "observe":
                # read-only figures of merit: their values are not judged, the object afterwards is
                what = op["what"]
                try:
                    if what == "pvr":
                        ifg.pvr() if ifg.data.shape[0] == ifg.data.shape[1] else ifg.pvr(normalization_radius=1.0)
                    elif what == "strehl":
                        ifg.strehl
                    elif what == "psd":
                        ifg.psd()
                    elif what == "support":
                        ifg.support, ifg.support_x, ifg.support_y, ifg.size, ifg.shape
                    elif what == "str":
                        str(ifg)
                    elif what == "slope":
                        ifg.slope()
                    elif what in ("slices_plot", "plot2d"):
                        import os as _os
                        _os.environ["MPLBACKEND"] = "Agg"
                        import matplotlib
                        matplotlib.use("Agg")
                        from matplotlib import pyplot as _plt
                        try:
                            if what == "plot2d":
                                ifg.plot2d()
                                ifg.plot2d(log=True)
                            else:
                                sl = ifg.slices()
                                sl.plot("x", invert_x=True)
                                sl.plot(["x", "y"], invert_x=True)
                                sl.plot("azavg")
                        finally:
                            _plt.close("all")
                    elif what == "exact_x":
                        ifg.exact_x(0.0), ifg.exact_x(np.array([0.0, 0.25 * float(ifg.dx or 1.0)]))
                    elif what == "exact_y":
                        ifg.exact_y(0.0), ifg.exact_y(np.array([0.0, 0.25 * float(ifg.dx or 1.0)]))
                    elif what == "exact_xy":
                        ifg.exact_xy(0.0, 0.0)
                    elif what == "exact_polar":
                        ifg.exact_polar(0.0, 0.0)
                except Exception:
                    pass
            elif k == "copy":
                orig = ifg
                ifg = ifg.copy()
                bump(faults, "snapshot_restore")
                if len(shadows) < 2:
                    # keep the original: whatever happens to the copy later must not reach it
                    m0 = _Model()
                    m0.shape, m0.dx, m0.valid, m0.scale = mdl.shape, mdl.dx, mdl.valid.copy(), mdl.scale
                    snap = {w: (None if getattr(orig, "_" + w, None) is None else np.array(getattr(orig, "_" + w)))
                            for w in "xyrt"}
                    shadows.append((i, orig, m0, orig.data.copy(), snap))
            elif k == "poison":
                bump(faults, "poison_step")
                pk = op["kind"]
                if pk == "pad_smaller":
                    ifg.pad(shape=(max(ifg.data.shape[0] - 1, 0), ifg.data.shape[1]))
                elif pk == "mask_badshape":
                    ifg.mask(np.ones((ifg.data.shape[0] + 1, ifg.data.shape[1] + 2), dtype=bool))
                elif pk == "filter_badtype":
                    ifg.filter(0.1, "no-such-filter")
                else:
                    ifg.pad(samples=1, shape=3)
                # not raising is fine too (a future version may accept or coerce such input), but what
                # the object then holds is undefined: the rest of this run is not judged
                raise _Stop("poison input accepted")
            elif k == "precision":
                if config.precision != (np.float32 if op["bits"] == 32 else np.float64):
                    bump(faults, "precision_flip")
                config.precision = op["bits"]
            elif k == "crop":
                ifg.crop()
                if mdl.valid.any():
                    rows = np.where(mdl.valid.any(axis=1))[0]
                    cols = np.where(mdl.valid.any(axis=0))[0]
                    bb = (slice(rows[0], rows[-1] + 1), slice(cols[0], cols[-1] + 1))
                    nn = [rows[0] > 0, rows[-1] < mdl.shape[0] - 1, cols[0] > 0, cols[-1] < mdl.shape[1] - 1]
                    bump(probes, f"crop_nan_sides_{sum(nn)}")
                    # the result must be a contiguous block of the old array that contains
                    # every valid sample (the documented bounding box is one such block)
                    got = ifg.data
                    found = None
                    H, W = got.shape if got.ndim == 2 else (0, 0)
                    for oy in range(0, rows[0] + 1):
                        for ox in range(0, cols[0] + 1):
                            if oy + H <= rows[-1] or ox + W <= cols[-1]:
                                continue
                            if oy + H > before.shape[0] or ox + W > before.shape[1]:
                                continue
                            if _nan_eq(np, got, before[oy:oy + H, ox:ox + W]):
                                found = (oy, ox)
                                break
                        if found:
                            break
                    if found is None:
                        viol("crop-keeps", i, k, bits, got_shape=list(ifg.data.shape),
                             bbox_shape=[int(rows[-1] - rows[0] + 1), int(cols[-1] - cols[0] + 1)])
                        mdl.valid = mdl.valid[bb]
                        mdl.shape = tuple(mdl.valid.shape)
                    else:
                        mdl.valid = mdl.valid[found[0]:found[0] + H, found[1]:found[1] + W]
                        mdl.shape = (H, W)
                else:
                    bump(probes, "crop_all_invalid")
                c2 = copy.deepcopy(ifg)
                try:
                    c2.crop()
                    if not _nan_eq(np, c2.data, ifg.data):
                        viol("crop-idem", i, k, bits, got_shape=list(c2.data.shape), want_shape=list(ifg.data.shape))
                except Exception as e:
                    viol("crop-idem", i, k, bits, exc=type(e).__name__)
            elif k == "pad":
                m, n = ifg.data.shape
                val = float("nan") if op["value"] == "nan" else op["value"]
                if "samples" in op:
                    s = op["samples"]
                    s2 = (s, s) if isinstance(s, int) else tuple(s)
                    new = (m + s2[0], n + s2[1])
                    ifg.pad(val, samples=s if isinstance(s, int) else tuple(s))
                elif "grow" in op:
                    new = (m + op["grow"][0], n + op["grow"][1])
                    ifg.pad(val, shape=new)
                else:
                    side = max(m, n) + op["grow_sq"]
                    new = (side, side)
                    ifg.pad(val, shape=side)
                if (m % 2 == 0 and new[0] % 2 == 1) or (n % 2 == 0 and new[1] % 2 == 1):
                    bump(probes, "pad_even_to_odd")
                mdl.shape = new
                placed = _find_block(np, ifg.data, before, val)
                if placed is None:
                    viol("pad-conserves", i, k, bits, new=list(ifg.data.shape), old=[m, n])
                    mdl.valid = ~np.isnan(ifg.data) if ifg.data.shape == new else np.zeros(new, bool)
                else:
                    v2 = np.zeros(new, dtype=bool) if math.isnan(val) else np.ones(new, dtype=bool)
                    v2[placed[0]:placed[0] + m, placed[1]:placed[1] + n] = valid_before
                    mdl.valid = v2
            elif k == "mask_arr":
                g = np.random.Generator(np.random.PCG64(op["seed"]))
                mk = g.random(ifg.data.shape) < op["keep"]
                mk0 = mk.copy()
                ifg.mask(mk)
                if not np.array_equal(mk, mk0):
                    viol("arg-mutated", i, k, bits, what="the mask array passed to mask() was modified")
                    mk = mk0
                mdl.valid = mdl.valid & mk
                bump(faults, "dropout_injection")
            elif k == "mask_r":
                r = ifg.r
                if r.shape != ifg.data.shape:
                    raise _Skip("stale r of another shape")
                mk = r < op["rho"] * float(r.max())
                ifg.mask(mk)
                mdl.valid = mdl.valid & mk
            elif k == "fill":
                ifg.fill(op["v"])
                mdl.valid = np.ones(mdl.shape, dtype=bool)
            elif k == "spike_clip":
                ifg.spike_clip(op["ns"])
                now_nan = np.isnan(ifg.data) if ifg.data.shape == before.shape else ~valid_before
                # which samples count as spikes is the routine's business; it may only invalidate
                if bool(np.any(~valid_before & ~now_nan)):
                    viol("spike-revives", i, k, bits)
                mdl.valid = valid_before & ~now_nan
                if bool(np.any(valid_before & now_nan)):
                    bump(probes, "spike_clipped_some")
            elif k == "remove_piston":
                ifg.remove_piston()
            elif k == "remove_tiptilt":
                ifg.remove_tiptilt()
            elif k == "remove_power":
                ifg.remove_power()
            elif k == "recenter":
                ifg.recenter()
            elif k == "latcal":
                ifg.latcal(op["p"])
                mdl.dx = float(op["p"])
            elif k == "strip_latcal":
                ifg.strip_latcal()
                mdl.dx = 1.0
            elif k == "filter":
                if not (mdl.valid.all() and min(mdl.shape) >= 2):
                    raise _Skip("filter needs fully valid data, both axes >= 2")
                if not mdl.dx > 0:
                    raise _Skip("filter needs a lateral calibration")
                nyq = 1.0 / (2.0 * ifg.dx)
                fc = op["fc"]
                fc = tuple(f * nyq for f in fc) if isinstance(fc, list) else fc * nyq
                ifg.filter(fc, op["typ"])
            else:
                raise RuntimeError(f"unknown op {k}")
        except _Stop as s:
            ev["out"] = "stop:" + str(s)
            events.append(ev)
            bump(probes, "poison_accepted_run_cut_short")
            break
        except _Skip as s:
            out = "skip"
            skip = True
            ev["why"] = str(s)
        except Exception as e:  # behaviour of a step that raises is not judged
            out = "raised:" + type(e).__name__
            # the model follows the object where the step may have half-applied
            mdl.shape = tuple(ifg.data.shape)
            mdl.valid = ~np.isnan(ifg.data)
            try:
                mdl.dx = float(ifg.dx)
            except Exception:
                pass
        ev["out"] = out
        if k in MUTATORS and not skip:
            state_changes += 1
            pop = "".join(ch for ch in bits if ch not in "-?")
            bump(probes, f"{k}|caches={pop or 'none'}")
            if prev_mutating is False and pop:
                bump(faults, "mutator_after_cache_populate")
        prev_mutating = k in MUTATORS

        # the object and the model must agree on the shape before any value
        # oracle can be evaluated; a disagreement is itself a violation, after
        # which the model follows the object so that later steps stay judgeable
        if tuple(ifg.data.shape) != tuple(mdl.shape) or tuple(mdl.valid.shape) != tuple(mdl.shape):
            if out == "ok" and not skip:
                viol("shape-model", i, k, bits, got=list(ifg.data.shape), want=list(mdl.shape))
            mdl.shape = tuple(ifg.data.shape)
            mdl.valid = ~np.isnan(ifg.data)
            out_for_oracles = "resynced"
        else:
            out_for_oracles = out
        if not skip and out_for_oracles == "ok":
            data_now = ifg.data
            # steps that do not claim to change the values must not
            if k in ("read", "slices", "stats", "observe", "copy", "precision", "recenter", "latcal", "strip_latcal"):
                if not _nan_eq(np, data_now, before):
                    viol("data-untouched", i, k, bits)
            if k in ("mask_arr", "mask_r", "spike_clip"):
                keep = mdl.valid
                if data_now.shape == before.shape and not bool(np.all(data_now[keep] == before[keep])):
                    viol("data-untouched", i, k, bits)
            if k == "fill":
                if not bool(np.all(data_now[valid_before] == before[valid_before])):
                    viol("data-untouched", i, k, bits)
            if k == "remove_piston" and mdl.valid.any():
                dv = data_now[mdl.valid].astype(np.float64)
                if not abs(float(dv.mean())) <= (1e-5 if data_now.dtype == np.float32 else 1e-9) * mdl.scale:
                    viol("piston", i, k, bits, mean=float(dv.mean()), scale=mdl.scale)
                ch = (before.astype(np.float64) - data_now.astype(np.float64))[mdl.valid]
                if not float(ch.max() - ch.min()) <= (1e-5 if data_now.dtype == np.float32 else 1e-9) * mdl.scale:
                    viol("piston", i, k, bits, spread=float(ch.max() - ch.min()))
            if k in ("remove_tiptilt", "remove_power") and mdl.valid.any():
                c2 = copy.deepcopy(ifg)
                try:
                    getattr(c2, k)()
                    dv = np.abs(c2.data - data_now)[mdl.valid]
                    err = float(dv.max()) if dv.size else 0.0
                    # under the single-precision configuration (or with float32 coordinate
                    # grids still cached) the fit itself is only good to float32 rounding
                    lowp = config.precision == np.float32 or data_now.dtype == np.float32 or any(
                        getattr(getattr(ifg, "_" + w, None), "dtype", None) == np.float32 for w in "xyrt")
                    if not err <= (1e-4 if lowp else 1e-8) * mdl.scale:
                        cls = ""
                        if k == "remove_power":
                            cls = _power_class(np, mdl)
                        viol(("tilt" if k == "remove_tiptilt" else "power") + "-idem", i, k, bits,
                             err=err, scale=mdl.scale, cls=cls)
                except Exception as e:
                    viol(("tilt" if k == "remove_tiptilt" else "power") + "-idem", i, k, bits, exc=type(e).__name__)
                if k == "remove_tiptilt":
                    _tilt_plane(np, ifg, before, data_now, mdl, i, k, bits, viol)
                else:
                    _power_refit(np, ifg, data_now, mdl, i, k, bits, viol)
            if k == "filter":
                bump(probes, "filter_applied")
        if k in ("latcal", "strip_latcal"):
            mdl.power_readings = None          # a routine may tie its choice of radius to the calibration state
        _invariants(np, ifg, mdl, i, k, bits, viol)
        if mdl.valid.any():
            mdl.scale = max(mdl.scale, float(np.max(np.abs(ifg.data[mdl.valid]))) if ifg.data.shape == mdl.valid.shape else mdl.scale)
        ev["shape"] = list(ifg.data.shape)
        ev["fp"] = core.fp_array(ifg.data)
        ev["nviol"] = len(violations)
        events.append(ev)
        par = f"{mdl.shape[0] % 2}{mdl.shape[1] % 2}"
        trans.add(f"{bits}|{int(bool(getattr(ifg, '_latcaled', 0)))}|{int(not mdl.valid.all())}|{par}|{k}|{out[:10]}")

    bits_s = _cache_bits(sib)
    if not _nan_eq(np, sib.data, sib_data):
        viol("instance-isolated", -1, "sibling", bits_s, what="data")
    for w, a0 in sib_snap.items():
        if not _coords_same(np, getattr(sib, w), a0):
            viol("instance-isolated", -1, "sibling", bits_s, what=w)
    # ... and the sibling must still work like a fresh object: calibration steps regenerate its
    # grids, which must come out right whatever the other instance did to shared state
    try:
        ms = _Model()
        ms.shape, ms.valid, ms.scale = tuple(sib.data.shape), ~np.isnan(sib.data), mdl.scale
        sib.strip_latcal()
        ms.dx = 1.0
        _invariants(np, sib, ms, -1, "sibling-strip_latcal", _cache_bits(sib), viol)
        sib.latcal(2.5)
        ms.dx = 2.5
        _invariants(np, sib, ms, -1, "sibling-latcal", _cache_bits(sib), viol)
        bump(probes, "sibling_probed")
    except Exception as e:
        viol("instance-isolated", -1, "sibling", _cache_bits(sib), exc=type(e).__name__)
    # originals left behind by copy(): untouched by anything done to the copy since
    for (ci, orig, m0, data0, snap) in shadows:
        bits0 = _cache_bits(orig)
        if not _nan_eq(np, orig.data, data0):
            viol("copy-isolated", ci, "copy", bits0, what="data")
        for w, a0 in snap.items():
            if a0 is None:
                continue
            try:
                a1 = getattr(orig, w)          # through the public property: caches may have been dropped
            except Exception:
                a1 = None
            if a1 is None or not _coords_same(np, a1, a0):
                viol("copy-isolated", ci, "copy", bits0, what=w)
        bump(probes, "copy_shadow_checked")
    nontrivial = state_changes >= 1 and any(e["op"] == "read" for e in events)
    return {"events": events, "violations": violations[:20], "faults": faults, "probes": probes,
            "trans": sorted(trans), "nontrivial": nontrivial}


class _Skip(Exception):
    pass


class _Stop(Exception):
    pass


def _power_class(np, mdl):
    m, n = mdl.shape
    x, y = np.linspace(-1, 1, n), np.linspace(-1, 1, m)
    xx, yy = np.meshgrid(x, y)
    rho2 = (xx * xx + yy * yy)[mdl.valid]
    if rho2.size and float(rho2.max() - rho2.min()) <= 1e-9 * max(1.0, float(rho2.max())):
        return "single-radius"
    return ""


def _power_refit(np, ifg, after, mdl, i, k, bits, viol):
    """"Re-fitting the removed term to the result finds nothing", independently: a least-squares fit
    of [rho^2, 1] to what is left.  Which radius 'power' is measured in is the routine's choice, so
    either the per-axis normalised radius (linspace(-1, 1) on each axis) or the physical radius of the
    object's own x, y is accepted.  Not judged when power cannot be told from piston."""
    v = mdl.valid
    if int(v.sum()) < 3 or _power_class(np, mdl) == "single-radius":
        return
    z = after[v].astype(float)
    m, n = mdl.shape
    xx, yy = np.meshgrid(np.linspace(-1, 1, n) if n > 1 else np.zeros(1), np.linspace(-1, 1, m) if m > 1 else np.zeros(1))
    bases = [(xx * xx + yy * yy)[v]]
    c = copy.deepcopy(ifg)
    try:
        x, y = np.asarray(c.x, dtype=float), np.asarray(c.y, dtype=float)
        if x.shape == after.shape and y.shape == after.shape:
            bases.append((x * x + y * y)[v])
    except Exception:
        pass
    left = []
    for b in bases:
        span = float(b.max() - b.min())
        if not span > 1e-9 * max(float(np.abs(b).max()), 1e-300):
            left.append(None)
            continue
        bc = (b - b.mean()) / span
        A = np.stack([bc, np.ones_like(bc)], axis=1)
        cf, *_ = np.linalg.lstsq(A, z, rcond=None)
        left.append(abs(float(cf[0])))            # peak-to-valley of the power term that is left
    from prysm.conf import config as _cfg
    lowp = _cfg.precision == np.float32 or after.dtype == np.float32
    tol = (1e-3 if lowp else 1e-7) * mdl.scale
    got = [x for x in left if x is not None]
    if got and not min(got) <= tol:
        viol("power-refit", i, k, bits, left=min(got), scale=mdl.scale)
        return
    # Either radius is a fair reading, but it is ONE routine: which reading it follows must not depend on
    # what happens to be cached.  Readings that a step clearly did not follow (ten times the allowance
    # left) are struck from the set the history has been consistent with so far.
    if len(left) == 2 and None not in left:
        ok = {nm for nm, x in zip(("normalised", "physical"), left) if x <= 10 * tol}
        prev = getattr(mdl, "power_readings", None)
        now = ok if prev is None else (prev & ok)
        if prev is not None and not now:
            viol("power-refit", i, k, bits, note="the radius in which power is measured changed during the history",
                 earlier=sorted(prev), this_step=sorted(ok), scale=mdl.scale)
        else:
            mdl.power_readings = now


def _tilt_plane(np, ifg, before, after, mdl, i, k, bits, viol):
    """The removed term must be a plane a*x + b*y in the object's own coordinates."""
    c = copy.deepcopy(ifg)
    x, y = np.asarray(c.x, dtype=float), np.asarray(c.y, dtype=float)
    if x.shape != after.shape or y.shape != after.shape:
        return
    v = mdl.valid
    ch = (before - after)[v]
    sx = max(float(np.abs(x[v]).max()), float(np.abs(y[v]).max()), 1e-300)
    A = np.stack([x[v] / sx, y[v] / sx, np.ones(int(v.sum()))], axis=1)   # a plane, with or without offset
    coef, *_ = np.linalg.lstsq(A, ch, rcond=None)
    resid = ch - A @ coef
    lowp = any(np.asarray(getattr(c, w)).dtype == np.float32 for w in "xy")
    from prysm.conf import config as _cfg
    lowp = lowp or _cfg.precision == np.float32 or after.dtype == np.float32
    if resid.size and not float(np.abs(resid).max()) <= (1e-4 if lowp else 1e-7) * mdl.scale:
        viol("tilt-plane", i, k, bits, resid=float(np.abs(resid).max()), scale=mdl.scale)
    # "re-fitting the removed term to the result finds nothing": an independent least-squares refit
    # of a plane to what is left, with or without an offset term (either model is a fair reading)
    z = after[v].astype(float)
    left = []
    cond = 1.0
    for cols in (A[:, :2], A):
        cf, _res, _rk, sv = np.linalg.lstsq(cols, z, rcond=None)
        left.append(max(abs(float(cf[0])), abs(float(cf[1]))))      # coordinates are scaled to |.| <= 1
        if sv.size and float(sv.min()) > 0:
            cond = max(cond, float(sv.max() / sv.min()))
    tol = (1e-3 if lowp else 1e-7) * mdl.scale
    if lowp and after.dtype == np.float32 and _cfg.precision != np.float32 and not any(
            np.asarray(getattr(c, w)).dtype == np.float32 for w in "xy"):
        # single-precision DATA under the double-precision configuration (coordinates are double): what a
        # correct fit leaves is the rounding of the float32 samples it was given, amplified by the
        # conditioning of the plane fit on these valid samples - not a fixed fraction of the historical scale
        sc_now = float(np.abs(before[v]).max()) if z.size else 0.0
        tol = min(tol, max(1e-7 * mdl.scale, 300 * float(np.finfo(np.float32).eps) * sc_now * cond))
    if z.size and not min(left) <= tol:
        viol("tilt-refit", i, k, bits, left=min(left), scale=mdl.scale)


def _find_block(np, new, old, val):
    """Offset at which `old` sits inside `new` with everything else == val (NaN aware)."""
    M, N = new.shape
    m, n = old.shape
    if M < m or N < n:
        return None

    def is_val(a):
        return np.isnan(a) if math.isnan(val) else (a == val)

    for oy in range(M - m + 1):
        for ox in range(N - n + 1):
            blk = new[oy:oy + m, ox:ox + n]
            if not bool(np.all((blk == old) | (np.isnan(blk) & np.isnan(old)))):
                continue
            rest = np.ones((M, N), dtype=bool)
            rest[oy:oy + m, ox:ox + n] = False
            if bool(np.all(is_val(new[rest]))):
                return (oy, ox)
    return None


def _invariants(np, ifg, mdl, i, k, bits, viol):
    c = copy.deepcopy(ifg)    # never read coordinates on the live object
    data = c.data
    shp = tuple(data.shape)
    if shp != tuple(mdl.shape):
        viol("shape-model", i, k, bits, got=list(shp), want=list(mdl.shape))
        mdl.shape = shp
        mdl.valid = ~np.isnan(data)
        return
    if data.size == 0 or data.ndim != 2:
        return
    try:
        dxo = float(c.dx)
    except Exception:
        dxo = float("nan")
    if not abs(dxo - mdl.dx) <= 1e-12 * max(abs(mdl.dx), 1e-300):
        viol("dx-model", i, k, bits, got=dxo, want=mdl.dx)
        if math.isfinite(dxo):
            mdl.dx = dxo
    if not bool(np.all(np.isnan(data) == ~mdl.valid)):
        viol("validity", i, k, bits, n_bad=int(np.sum(np.isnan(data) != ~mdl.valid)))
        mdl.valid = ~np.isnan(data)
    # a partially populated cache can answer differently depending on which coordinate is asked
    # for first (one getter may regenerate its partner): ask a second copy in the reverse order
    part = [ch for ch in bits if ch not in "-?"]
    if 0 < len(part) < 4:
        c2 = copy.deepcopy(ifg)
        for w in "tryx":
            try:
                a2 = np.asarray(getattr(c2, w))
            except Exception as e:
                viol("coord-shape", i, k, bits, which=w, exc=type(e).__name__, order="reverse")
                continue
            if tuple(a2.shape) != shp:
                viol("coord-shape", i, k, bits, which=w, got=list(a2.shape), want=list(shp), order="reverse")
        try:
            x2, y2 = np.asarray(c2.x, dtype=float), np.asarray(c2.y, dtype=float)
            r2, t2 = np.asarray(c2.r, dtype=float), np.asarray(c2.t, dtype=float)
            if x2.shape == shp and y2.shape == shp and r2.shape == shp and t2.shape == shp:
                ext2 = max(float(np.abs(x2).max()), float(np.abs(y2).max()), mdl.dx, 1e-300)
                lp = any(np.asarray(getattr(c2, w)).dtype == np.float32 for w in "xyrt")
                rl = 1e-4 if lp else 1e-9
                r02, t02 = np.hypot(x2, y2), np.arctan2(y2, x2)
                dt2 = np.where(r02 <= rl * ext2, 0.0, np.angle(np.exp(1j * (t2 - t02))))
                if not (bool(np.all(np.abs(r2 - r02) <= rl * ext2)) and bool(np.all(np.abs(dt2) <= (1e-3 if lp else 1e-9)))):
                    viol("polar-fresh", i, k, bits, order="reverse")
        except Exception:
            pass
    coords = {}
    bad_shape = False
    for w in "xyrt":
        try:
            a = np.asarray(getattr(c, w))
        except Exception as e:
            viol("coord-shape", i, k, bits, which=w, exc=type(e).__name__)
            bad_shape = True
            continue
        coords[w] = a
        if tuple(a.shape) != shp:
            viol("coord-shape", i, k, bits, which=w, got=list(a.shape), want=list(shp))
            bad_shape = True
    if not bad_shape:
        x, y, r, t = (coords[w].astype(float) for w in "xyrt")
        f32 = any(coords[w].dtype == np.float32 for w in "xy")
        rel = 1e-4 if f32 else 1e-9
        ext = max(float(np.abs(x).max()), float(np.abs(y).max()), mdl.dx)
        tol = rel * ext
        ok = True
        if x.shape[1] > 1:
            ok &= bool(np.all(np.abs(np.diff(x, axis=1) - mdl.dx) <= tol))
        if x.shape[0] > 1:
            ok &= bool(np.all(np.abs(np.diff(x, axis=0)) <= tol))
        if y.shape[0] > 1:
            ok &= bool(np.all(np.abs(np.diff(y, axis=0) - mdl.dx) <= tol))
        if y.shape[1] > 1:
            ok &= bool(np.all(np.abs(np.diff(y, axis=1)) <= tol))
        if not ok:
            viol("coord-spacing", i, k, bits, dx=mdl.dx)
        f32p = f32 or any(coords[w].dtype == np.float32 for w in "rt")
        relp = 1e-4 if f32p else 1e-9
        r0 = np.hypot(x, y)
        t0 = np.arctan2(y, x)
        okp = bool(np.all(np.abs(r - r0) <= relp * max(ext, 1e-300)))
        dt = np.angle(np.exp(1j * (t - t0)))
        # the angle at the exact origin is arbitrary
        dt = np.where(r0 <= relp * ext, 0.0, dt)
        okp &= bool(np.all(np.abs(dt) <= (1e-3 if f32p else 1e-9)))
        if not okp:
            viol("polar-fresh", i, k, bits)
    # statistics
    v = mdl.valid
    if v.any() and bool(np.all(np.isnan(data) == ~v)):
        dv = data[v].astype(float)
        sc = max(float(np.abs(dv).max()), 1e-300)
        try:
            got = {"pv": float(c.pv), "rms": float(c.rms), "Sa": float(c.Sa), "std": float(c.std)}
        except Exception as e:
            viol("stats", i, k, bits, exc=type(e).__name__)
            return
        mean = float(dv.mean())
        want = {"pv": float(dv.max() - dv.min()), "rms": float(math.sqrt(float((dv * dv).mean()))),
                "Sa": float(np.abs(dv - mean).mean()), "std": float(math.sqrt(float(((dv - mean) ** 2).mean())))}
        st = 1e-4 if data.dtype == np.float32 else 1e-9       # single-precision data: single-precision statistics
        if data.dtype == np.float32:
            sc = max(sc, 1e-6 * mdl.scale)                    # residues far below float32 resolution of the map are noise
        for nm in want:
            if not abs(got[nm] - want[nm]) <= st * sc:
                viol("stats", i, k, bits, which=nm, got=got[nm], want=want[nm])
                return
        if not abs(got["rms"] ** 2 - (got["std"] ** 2 + mean ** 2)) <= st * sc * sc:
            viol("stats", i, k, bits, which="rms2=std2+mean2")
        if not (got["Sa"] <= got["std"] + st * sc and got["std"] <= got["pv"] + st * sc):
            viol("stats", i, k, bits, which="Sa<=std<=PV", got=got)


# ---------------------------------------------------------------------------

def signature(v):
    s = f"{v['oracle']}:{v['op']}"
    if v.get("cls"):
        s += ":" + v["cls"]
    return s


def simplifiers(plan):
    init = plan["init"]
    if plan["config"].get("precision0") != 64:
        p = copy.deepcopy(plan)
        p["config"]["precision0"] = 64
        yield p
    if not init["latcaled"]:
        p = copy.deepcopy(plan)
        p["init"]["latcaled"] = True
        yield p
    if init.get("uncal"):
        p = copy.deepcopy(plan)
        p["init"]["uncal"] = False
        yield p
    if init["nan"]["kind"] != "none":
        p = copy.deepcopy(plan)
        p["init"]["nan"]["kind"] = "none"
        yield p
    if init["dx"] != 1.0:
        p = copy.deepcopy(plan)
        p["init"]["dx"] = 1.0
        yield p
    if init.get("layout", "c") != "c":
        p = copy.deepcopy(plan)
        p["init"]["layout"] = "c"
        yield p
    d = init["data"]
    for key, val in (("noise", 0.0), ("scale", 1.0), ("power", 0.0), ("piston", 0.0)):
        if d[key] != val:
            p = copy.deepcopy(plan)
            p["init"]["data"][key] = val
            yield p
    if d["tilt"] != [0.0, 0.0]:
        p = copy.deepcopy(plan)
        p["init"]["data"]["tilt"] = [0.0, 0.0]
        yield p
    for j in range(2):
        if init["shape"][j] > 1:
            p = copy.deepcopy(plan)
            p["init"]["shape"][j] -= 1
            yield p
            if init["shape"][j] > 3:
                p = copy.deepcopy(plan)
                p["init"]["shape"][j] = 3
                yield p
    for i, op in enumerate(plan["ops"]):
        if op["op"] == "read" and len(op["what"]) > 1:
            for w in op["what"]:
                p = copy.deepcopy(plan)
                p["ops"][i]["what"] = [x for x in op["what"] if x != w]
                yield p
        if op["op"] == "pad":
            if op["value"] != "nan":
                p = copy.deepcopy(plan)
                p["ops"][i]["value"] = "nan"
                yield p
            if "samples" in op and op["samples"] not in (1, 0):
                p = copy.deepcopy(plan)
                p["ops"][i]["samples"] = 1
                yield p
            if "grow" in op or "grow_sq" in op:
                p = copy.deepcopy(plan)
                p["ops"][i] = {"op": "pad", "samples": 1, "value": op["value"]}
                yield p
        if op["op"] == "latcal" and op["p"] != 2.0:
            p = copy.deepcopy(plan)
            p["ops"][i]["p"] = 2.0
            yield p


RULE = ("A run builds one Interferogram (shape 1..24 per axis, seeded NaN pattern and surface) and applies a "
        "seeded history of 3-45 mutators, observer reads of x/y/r/t (cache population), copies and precision "
        "flips, in a fresh forked interpreter; invariants are evaluated after every step on a deep copy. "
        "Non-trivial: at least one mutator executed and at least one observer read in the history. "
        "Distinct: distinct event-log digests (ops, cache-population bits before each step, outcomes, shapes and "
        "data fingerprints).")

COMPONENTS = {
    "real": ["prysm.interferogram.Interferogram (all mutators and statistics)", "prysm._richdata.RichData",
             "prysm.util", "prysm.fttools.pad2d", "prysm.coordinates", "prysm.polynomials.lstsq", "numpy"],
    "stub": [],
}
